"""C13 - symbol scoping, mutability and naming rules are honoured.

(B) real asl vs Model/Sym.lean (`assemble`: FindNode/EnterSymbol/SymbolAdder/GetSymSection/IdentifySection/ChkTmp*/
CodeSECTION/CodeENDSECTION/CodePPSyms/PushSymbol/PopSymbol + the pass loop), (C) Spec/Scope.lean (`judge`: the manual's
resolution over the section *tree*) on what the real asl did.  One generated program per source file: a section tree up
to depth 4 with same-named symbols on several levels, definitions before/after use, every qualifier form, PUBLIC/GLOBAL
exports to each ancestor, FORWARD, EQU/SET, temporaries ($$name, + - /, .name), PUSHV/POPV, with and without -U.
Ranges of temporary symbols are opened by every kind of defining statement (label with/without colon, alone on its line, in
front of a data pseudo-op or a macro call; EQU, =, SET, :=, EVAL, LABEL <value>, LABEL <pc>, ENUM/NEXTENUM members,
name[section] EQU inside sections), the temporaries themselves are defined by labels as well as by EQU/=/LABEL, statements
that define nothing (PUSHV/POPV, an inner SECTION) lie inside a range, and the composed names `parent.name` are read back.
Every reference is a data word (`adr sym` on 6502 / `dw sym` on Z80) read back from the real .p through the Lean `pfile`
reader; diagnostics come from the -E file with -n numbers.

Macro-local label spaces (labels in MACRO / REPT / IRP / IRPN / IRPC / WHILE bodies, with and without {GLOBALSYMBOLS}, nested, same
names global / in sections / in enclosing bodies, references inside, behind and with section qualifiers): c13_loc.py, run from here
(Model/SymLoc.lean, Spec/LocScope.lean, Props/C13_Loc.lean, driver mode `c13l`).
"""
import json
import os
import re
from concurrent.futures import ThreadPoolExecutor

from .. import common
from ..common import log

SIG_SHADOW = "forward-ref-binds-outer-symbol-when-no-second-pass"
SIG_POPCONST = "popv-overwrites-equ-constant"
SIG_DOLLAR = "named-temp-reused-after-same-named-symbol"

MAX_PASSES = 10       # hook H1: exit 97 when an 11th pass would be needed (pass livelock)

CPUS = {
    "6502": dict(cpu="6502", word="adr", set="set", nop=0xEA, pc="*"),
    "z80": dict(cpu="z80", word="dw", set="eval", nop=0x00, pc="$"),
}

MACRO_HEAD = "mymac\tmacro\n\tnop\n\tendm\n"      # `name mymac`: a label in front of a macro call (body: one nop)

# spellings of the defining statements (driver token form -> mnemonic); `set` is SET where the target has no SET instruction
CONST_FORMS = ["equ", "eq", "lab"]
VAR_FORMS = ["set", "asg", "eval"]

SYM_POOL = ["sym", "val", "cnt", "lim", "Sym", "VAL", "ptr2", "x_1"]
SEC_POOL = ["Alpha", "Beta", "Mod", "Proc", "alpha", "Q1", "Io"]
STACK_POOL = ["", "stk", "Stk", "s2"]


# ----------------------------------------------------------------------------------------------
# rendering

def hx(s):
    return s.encode("latin-1").hex() or "-"


def tok(st):
    k = st[0]
    if k == "S":
        return "S:" + hx(st[1])
    if k == "E":
        return "E:" + (hx(st[1]) if st[1] is not None else "-")
    if k == "D":
        return "D:%s:%d:%d" % (hx(st[1]), st[2], 1 if st[3] else 0) + (":" + st[4] if len(st) > 4 else "")
    if k == "L":
        return "L:" + hx(st[1]) + (":" + st[2] if len(st) > 2 else "")
    if k == "T":
        return "T:" + hx(st[1])
    if k == "W":
        return "W:%s:%s" % (hx(st[1]), hx(st[2]))
    if k == "A":
        return "A:" + hx(st[1])
    if k == "N":
        return "N:%d:%s" % (1 if st[1] else 0, ",".join(hx(a) + ("=%d" % b if b is not None else "") for a, b in st[2]))
    if k == "U":
        return "U:" + hx(st[1])
    if k in "FPG":
        return k + ":" + ",".join(hx(a) + ("=" + hx(b) if b is not None else "") for a, b in st[1])
    if k in "VO":
        return "%s:%s:%s" % (k, hx(st[1]), ",".join(hx(a) for a in st[2]))
    raise ValueError(st)


def render(st, c):
    k = st[0]
    if k == "S":
        return "\tsection\t" + st[1]
    if k == "E":
        return "\tendsection" + ("\t" + st[1] if st[1] is not None else "")
    if k == "D":
        form = st[4] if len(st) > 4 else ("set" if st[3] else "equ")
        mn = {"equ": "equ", "eq": "=", "lab": "label", "set": c["set"], "asg": ":=", "eval": "eval"}[form]
        return "%s\t%s\t%d" % (st[1], mn, st[2])
    if k == "L":
        form = st[2] if len(st) > 2 else "p"
        return {"p": "%s\tnop", "c": "%s:\tnop", "m": "%s\tmymac"}[form] % st[1]
    if k == "T":
        return "%s:" % st[1]
    if k == "W":
        return "%s:\t%s\t%s" % (st[1], c["word"], st[2])
    if k == "A":
        return "%s\tlabel\t%s" % (st[1], c["pc"])
    if k == "N":
        return "\t%s\t%s" % ("nextenum" if st[1] else "enum", ",".join(a + ("=%d" % b if b is not None else "") for a, b in st[2]))
    if k == "U":
        return "\t%s\t%s" % (c["word"], st[1])
    if k in "FPG":
        return "\t%s\t%s" % ({"F": "forward", "P": "public", "G": "global"}[k], ",".join(a + (":" + b if b is not None else "") for a, b in st[1]))
    if k in "VO":
        return "\t%s\t%s" % ("pushv" if k == "V" else "popv", ",".join([st[1]] + list(st[2])))
    raise ValueError(st)


def uses_macro(stmts):
    return any(s[0] == "L" and len(s) > 2 and s[2] == "m" for s in stmts)


def line0_of(stmts):
    return 5 if uses_macro(stmts) else 2


def source(stmts, c):
    head = "\tcpu\t%s\n\torg\t0\n" % c["cpu"] + (MACRO_HEAD if uses_macro(stmts) else "")
    return head + "\n".join(render(s, c) for s in stmts) + "\n", line0_of(stmts)


# ----------------------------------------------------------------------------------------------
# generator

class Gen:
    def __init__(self, rng, cs, maxdepth):
        self.rng = rng
        self.cs = cs
        self.maxdepth = maxdepth
        self.nextval = 0x101
        # deliberately invalid / finding-provoking material is a per-program decision (most programs are valid)
        self.inj = rng.choice(["dupdef", "badref", "popconst", "dollar", "popempty"]) if rng.random() < 0.2 else None
        self.out = []
        self.consts = {}      # (path tuple outermost-first, folded name) -> True   planned or defined constants
        self.vars = {}        # same key -> assigned already
        self.stats = dict(sections=0, maxdepth=0, defs=0, sets=0, labels=0, uses=0, qual_named=0, qual_parent=0, qual_global=0,
                          public=0, globl=0, forward=0, tmp_named=0, tmp_nameless=0, tmp_composed=0,
                          pushpop=0, injected=0, same_name_levels=0)

    def f(self, n):
        return n if self.cs else n.upper()

    def val(self):
        self.nextval += self.rng.choice([1, 1, 2, 7])
        return self.nextval

    def spell(self, n):
        """another spelling of the same name (only when case is folded)"""
        if self.cs or self.rng.random() < 0.5:
            return n
        r = self.rng.random()
        return n.upper() if r < 0.4 else n.lower() if r < 0.8 else n.swapcase()

    def emit(self, st):
        self.out.append(st)

    # --- planning: which constants live where (so that forward references can be generated)
    def plan(self, path, depth):
        rng = self.rng
        node = dict(path=path, defs=[], kids=[])
        names = rng.sample(SYM_POOL, rng.choice([1, 2, 2, 3, 4]))
        seen = set()
        for n in names:
            if self.f(n) in seen:
                continue
            seen.add(self.f(n))
            kind = rng.choice(["E", "E", "E", "L", "S"])
            exp = None
            if path and rng.random() < 0.35:
                lvl = rng.randrange(0, len(path))          # export target: ancestor path[:lvl]
                exp = (rng.choice(["P", "P", "G"]), lvl)
            elif path and rng.random() < 0.25:
                exp = ("F", None)
            d = dict(name=n, kind=kind, exp=exp)
            home = path[:exp[1]] if exp and exp[0] == "P" else path
            key = (home, self.f(n))
            if key in self.consts or key in self.vars:
                continue
            if kind == "S":
                self.vars[key] = False
            else:
                self.consts[key] = self.val()
                d["val"] = self.consts[key]
            if exp and exp[0] == "G":
                comb = "_".join(list(path[exp[1]:]) + [n])
                gkey = (path[:exp[1]], self.f(comb))
                if gkey in self.consts or gkey in self.vars:
                    d["exp"] = None
                elif kind != "S":
                    self.consts[gkey] = self.consts[key]
                    d["comb"] = comb
                else:
                    d["exp"] = None
            node["defs"].append(d)
        if depth < self.maxdepth:
            nk = rng.choice([0, 1, 1, 2, 2, 3]) if depth < 2 else rng.choice([0, 0, 1, 1, 2])
            used = set()
            for _ in range(nk):
                sn = rng.choice(SEC_POOL)
                if self.f(sn) in used:
                    continue
                used.add(self.f(sn))
                node["kids"].append(self.plan(path + (sn,), depth + 1))
        return node

    # --- references
    def qual_for(self, path, home):
        """a qualifier text that selects `home` (an ancestor-or-self of `path`) or None"""
        rng = self.rng
        k = len(path) - len(home)
        forms = []
        if not home:
            forms.append("")
        if k <= 9:
            forms.append("PARENT%d" % k)
            if k == 1:
                forms.append("PARENT")
        if home:
            nm = home[-1]
            # innermost section of that name on the path must be `home`
            inner = [i for i in range(len(path)) if self.f(path[i]) == self.f(nm)]
            if inner and inner[-1] == len(home) - 1:
                forms.append(nm)
        q = rng.choice(forms)
        if q == "":
            self.stats["qual_global"] += 1
        elif q.upper().startswith("PARENT") and (len(q) in (6, 7)):
            self.stats["qual_parent"] += 1
            q = rng.choice([q, q.lower(), q.capitalize()])
        else:
            self.stats["qual_named"] += 1
            q = self.spell(q)
        return q

    def visible(self, path):
        res = []
        for (home, n), v in self.consts.items():
            if home == path[:len(home)]:
                res.append((home, n, "c"))
        for (home, n), assigned in self.vars.items():
            if assigned and home == path[:len(home)]:
                res.append((home, n, "v"))
        return res

    def use(self, path):
        rng = self.rng
        vis = self.visible(path)
        r = rng.random()
        if not vis or (self.inj == "badref" and r < 0.1):
            self.stats["injected"] += 1
            self.emit(("U", rng.choice(["nodef", "sym[Zed]", "val[PARENT7]", "sym[PARENT%d]" % (len(path) + 1)])))
            return
        home, n, kind = rng.choice(vis)
        name = self.orig.get((home, n), n)
        levels = sum(1 for (h, m, _) in vis if m == n)
        if levels > 1:
            self.stats["same_name_levels"] += 1
        hidden = any((not a) and h2 == path[:len(h2)] and len(h2) > len(home) and m == n for (h2, m), a in self.vars.items())
        if hidden or rng.random() < 0.45:
            ref = "%s[%s]" % (self.spell(name), self.qual_for(path, home))
        else:
            ref = self.spell(name)
        self.stats["uses"] += 1
        self.emit(("U", ref))

    # --- temporaries: self-contained runs of statements
    def tmp_block(self, path):
        rng = self.rng
        kind = rng.choice(["nameless", "nameless", "named", "composed"])
        anchor = "t%d" % len(self.out)
        if kind == "nameless":
            self.stats["tmp_nameless"] += 1
            seq = []
            nb = 0
            nf_pending = 0
            for _ in range(rng.choice([3, 5, 7, 9])):
                r = rng.random()
                if r < 0.25:
                    seq.append(("L", "-"))
                    nb += 1
                elif r < 0.4:
                    seq.append(("L", "/"))
                    nb += 1
                    nf_pending = max(0, nf_pending - 1)
                elif r < 0.55:
                    seq.append(("L", "+"))
                    nf_pending = max(0, nf_pending - 1)
                elif r < 0.8 and nb:
                    seq.append(("U", "-" * rng.randint(1, min(3, nb) if rng.random() < 0.93 else 3)))
                else:
                    k = rng.randint(1, 3)
                    seq.append(("U", "+" * k))
                    nf_pending = max(nf_pending, k)
            for _ in range(nf_pending):
                seq.append(("L", rng.choice(["+", "+", "/"])))
            for s in seq:
                self.emit(s)
        elif kind == "named":
            self.stats["tmp_named"] += 1
            self.emit(("L", anchor))
            if rng.random() < 0.5:
                self.emit(("U", "$$lp"))
            self.emit(("L", "$$lp"))
            self.emit(("U", self.spell("$$lp")))
            self.emit(("L", anchor + "b"))
            self.emit(("L", "$$lp"))
            self.emit(("U", "$$lp"))
            if self.inj == "dollar" and rng.random() < 0.6:
                # re-use after a symbol with the *same name* was defined again (SET): the manual's counter advances
                self.emit(("D", "tv", self.val(), True))
                self.emit(("L", "$$q"))
                self.emit(("D", "tv", self.val(), True))
                self.emit(("L", "$$q"))
                self.emit(("U", "$$q"))
                self.stats["injected"] += 1
        else:
            self.stats["tmp_composed"] += 1
            self.emit(("L", anchor))
            if rng.random() < 0.5:
                self.emit(("U", ".loc"))
            self.emit(("L", ".loc"))
            self.emit(("U", self.spell(".loc")))
            self.emit(("L", anchor + "c"))
            self.emit(("L", ".loc"))
            self.emit(("U", ".loc"))
            self.emit(("U", anchor + ".loc"))
            self.emit(("U", self.spell(anchor) + "c.loc"))

    # --- temporaries whose range is opened by every kind of defining statement
    OPENERS = ["label", "label:", "label-only", "label-macro", "label-word", "equ", "eq", "set", "asg", "eval", "lab", "lab-pc",
               "enum", "nextenum", "equ-qual"]

    def opener(self, path, base, kind, setnames, dotref):
        """statements of one range-opening definition; returns (statements, name the manual calls 'most recently defined',
        names whose values a later data word may show)"""
        rng = self.rng
        nm = base
        if kind == "label":
            return [("L", nm, "p")], nm, [nm]
        if kind == "label:":
            return [("L", nm, "c")], nm, [nm]
        if kind == "label-only":
            return [("T", nm)], nm, [nm]
        if kind == "label-macro":
            return [("L", nm, "m")], nm, [nm]
        if kind == "label-word":
            # the operand may be the line's own label or a composed temporary of the range this very label opens
            return [("W", nm, rng.choice([nm, self.spell(nm)] + ([dotref, dotref] if dotref else [])))], nm, [nm]
        if kind in ("equ", "eq", "lab"):
            return [("D", nm, self.val(), False, kind)], nm, [nm]
        if kind in ("set", "asg", "eval"):
            if self.inj == "dollar" and setnames and rng.random() < 0.6:
                # the same variable assigned again opens a new range by the manual (the name of the range stays the same:
                # input class of the finding named-temp-reused-after-same-named-symbol when the spelling is identical)
                nm = rng.choice(setnames)
                nm = nm if rng.random() < 0.6 else self.spell(nm)
                self.stats["injected"] += 1
            else:
                setnames.append(nm)
            return [("D", nm, self.val(), True, kind)], nm, [nm]
        if kind == "lab-pc":
            return [("A", nm)], nm, [nm]
        if kind in ("enum", "nextenum"):
            n = rng.choice([1, 2, 3])
            items = []
            for i in range(n):
                items.append((nm + "abc"[i], self.val() if rng.random() < 0.3 else None))
            return [("N", kind == "nextenum", items)], items[-1][0], [a for a, _ in items]
        if kind == "equ-qual":
            # defined into an enclosing section (or the global level) by name[section]: the *name* still opens the range
            home = path[:rng.randrange(0, len(path) + 1)]
            form = rng.choice(CONST_FORMS)
            return [("D", "%s[%s]" % (nm, self.qual_for(path, home)), self.val(), False, form)], nm, [nm]
        raise ValueError(kind)

    def tmp_def(self, name):
        """a definition of the temporary `name` by a random defining statement"""
        rng = self.rng
        r = rng.random()
        if r < 0.3:
            return ("L", name, "p")
        if r < 0.5:
            return ("L", name, "c")
        if r < 0.6:
            return ("T", name)
        if r < 0.7:
            return ("W", name, self.spell(name))
        if r < 0.8:
            return ("L", name, "m")
        if r < 0.95:
            return ("D", name, self.val(), False, rng.choice(CONST_FORMS))
        return ("A", name)

    def range_block(self, path):
        rng = self.rng
        self.stats["tmp_ranges"] = self.stats.get("tmp_ranges", 0) + 1
        base = "r%d" % len(self.out)
        nranges = rng.choice([2, 3, 3, 4, 5])
        dot = rng.choice([".loc", ".lp", ".L1"])
        dol = rng.choice(["$$lp", "$$t", "$$Go"])
        setnames = []
        composed = []        # full names parent.temp that exist
        shown = []
        if rng.random() < 0.2:
            # temporaries before the first opener of this block: they belong to whatever was defined last before it
            for t in rng.sample([dot, dol], rng.choice([1, 2])):
                self.emit(self.tmp_def(t))
                self.emit(("U", self.spell(t)))
        for i0 in range(nranges):
            kind = rng.choice(self.OPENERS)
            if kind == "equ-qual" and not path and rng.random() < 0.5:
                kind = "equ"
            what = rng.choice(["dot", "dot", "dol", "dol", "both", "both", "none"])
            sts, last, names = self.opener(path, "%s%s" % (base, "uvwxyz"[i0]), kind, setnames, dot if what in ("dot", "both") else None)
            key = "open_" + kind
            self.stats[key] = self.stats.get(key, 0) + 1
            for st in sts:
                self.emit(st)
            shown += names
            seq = []
            if what in ("dot", "both"):
                if rng.random() < 0.4:
                    seq.append(("U", self.spell(dot)))
                seq.append(self.tmp_def(dot))
                for _ in range(rng.choice([0, 1, 1, 2])):
                    seq.append(("U", self.spell(dot)))
                composed.append(last + dot)
                self.stats["tmp_composed"] += 1
            if what in ("dol", "both"):
                seq2 = []
                if rng.random() < 0.4:
                    seq2.append(("U", self.spell(dol)))
                seq2.append(self.tmp_def(dol))
                for _ in range(rng.choice([0, 1, 1, 2])):
                    seq2.append(("U", self.spell(dol)))
                self.stats["tmp_named"] += 1
                # interleave the two kinds keeping each one's own order
                merged = []
                while seq or seq2:
                    src = seq if (seq and (not seq2 or rng.random() < 0.5)) else seq2
                    merged.append(src.pop(0))
                seq = merged
            if rng.random() < 0.3 and composed:
                seq.insert(rng.randrange(len(seq) + 1), ("U", self.spell(rng.choice(composed))))
            # statements that define no symbol do not end the range: PUSHV/POPV of a variable, an (otherwise empty) section
            r = rng.random()
            if r < 0.12 and setnames and seq:
                v = rng.choice(setnames)
                i = rng.randrange(len(seq) + 1)
                j = rng.randrange(i, len(seq) + 1)
                seq.insert(j, ("O", "", [v]))
                seq.insert(i, ("V", "", [v]))
                self.stats["range_nonopener"] = self.stats.get("range_nonopener", 0) + 1
            elif r < 0.24 and seq:
                i = rng.randrange(len(seq) + 1)
                j = rng.randrange(i, len(seq) + 1)
                inner = [x for x in seq[i:j] if x[0] == "U"]      # references only: definitions inside would be local to it
                if len(inner) == j - i:
                    sn = "%ss%d" % (base, i0)
                    seq.insert(j, ("E", None if rng.random() < 0.5 else sn))
                    seq.insert(i, ("S", sn))
                    self.stats["range_nonopener"] = self.stats.get("range_nonopener", 0) + 1
            for st in seq:
                self.emit(st)
        # the composed names stay reachable from outside their range; the opening symbols have their values
        for full in composed:
            if rng.random() < 0.8:
                self.emit(("U", self.spell(full)))
        for nm in shown:
            if rng.random() < 0.4:
                self.emit(("U", self.spell(nm)))
        # close the block with an ordinary label so that whatever follows starts in a range of its own
        self.emit(("L", base + "end"))

    def pushpop_block(self, path):
        rng = self.rng
        self.stats["pushpop"] += 1
        base = "pv%d" % len(self.out)
        n = rng.choice([1, 2, 3])
        names = [base + "abc"[i] for i in range(n)]
        const_victim = self.inj == "popconst" and rng.random() < 0.5
        for i, nm in enumerate(names):
            self.emit(("D", nm, self.val(), not (const_victim and i == 0)))
        stk = rng.choice(STACK_POOL)
        self.emit(("V", stk, [self.spell(x) for x in names]))
        if rng.random() < 0.4:
            self.emit(("V", stk, [names[-1]]))
            extra = True
        else:
            extra = False
        for nm in names:
            if not (const_victim and nm == names[0]):
                self.emit(("D", nm, self.val(), True))
                self.emit(("U", nm))
        if extra:
            self.emit(("O", self.spell(stk), [names[-1]]))
            self.emit(("U", names[-1]))
        order = list(reversed(names))
        r = rng.random()
        if r < 0.08:
            order = names                      # not the reverse order: values get exchanged (still defined behaviour)
        if const_victim and n > 1:
            # pop a variable's value into the constant
            order = [names[0]] + [x for x in order if x != names[0]]
            self.stats["injected"] += 1
        if r > 0.95:
            order = order[:-1]                 # leaves an element on the stack: warning at the end of the pass
        if self.inj == "popempty" and r > 0.5:
            order = order + [names[0], names[0]]   # pops from an empty stack
        if order:
            self.emit(("O", stk, order))
        for nm in names:
            self.emit(("U", nm))

    # --- emission in program order
    def body(self, node):
        rng = self.rng
        path = node["path"]
        items = [("def", d) for d in node["defs"]] + [("kid", k) for k in node["kids"]]
        rng.shuffle(items)
        extra = rng.choice([2, 3, 4, 6])
        for _ in range(extra):
            items.insert(rng.randrange(len(items) + 1), ("use", None))
        if rng.random() < 0.3:
            items.insert(rng.randrange(len(items) + 1), ("tmp", None))
        if rng.random() < 0.3:
            items.insert(rng.randrange(len(items) + 1), ("rng", None))
        if rng.random() < 0.2:
            items.insert(rng.randrange(len(items) + 1), ("pp", None))
        # declarations first (somewhere before the definition): emit them at the top in random grouping
        decls = [d for d in node["defs"] if d["exp"]]
        rng.shuffle(decls)
        i = 0
        while i < len(decls):
            grp = [decls[i]]
            while i + 1 < len(decls) and decls[i + 1]["exp"][0] == grp[0]["exp"][0] and rng.random() < 0.5:
                i += 1
                grp.append(decls[i])
            i += 1
            k = grp[0]["exp"][0]
            args = []
            for d in grp:
                if k == "F":
                    args.append((self.spell(d["name"]), None))
                    self.stats["forward"] += 1
                else:
                    home = path[:d["exp"][1]]
                    q = self.qual_for(path, home)
                    args.append((self.spell(d["name"]), None if q == "" and rng.random() < 0.7 else q))
                    self.stats["public" if k == "P" else "globl"] += 1
            self.emit((k, args))
        for kind, it in items:
            if kind == "use":
                self.use(path)
            elif kind == "tmp":
                self.tmp_block(path)
            elif kind == "rng":
                self.range_block(path)
            elif kind == "pp":
                self.pushpop_block(path)
            elif kind == "kid":
                nm = it["path"][-1]
                self.stats["sections"] += 1
                self.stats["maxdepth"] = max(self.stats["maxdepth"], len(it["path"]))
                self.emit(("S", self.spell(nm)))
                self.body(it)
                self.emit(("E", None if rng.random() < 0.5 else self.spell(nm)))
            else:
                d = it
                n = d["name"]
                home = path[:d["exp"][1]] if d["exp"] and d["exp"][0] == "P" else path
                key = (home, self.f(n))
                if d["kind"] == "S":
                    for _ in range(rng.choice([1, 2, 3])):
                        self.emit(("D", self.spell(n), self.val(), True))
                        self.vars[key] = True
                        self.stats["sets"] += 1
                        if rng.random() < 0.6:
                            self.emit(("U", self.spell(n)))
                            self.stats["uses"] += 1
                elif d["kind"] == "L":
                    # a label's value is its address: the planned value is only a placeholder for distinctness
                    self.emit(("L", self.spell(n)))
                    self.stats["labels"] += 1
                else:
                    self.emit(("D", self.spell(n), d["val"], False))
                    self.stats["defs"] += 1
                if self.inj == "dupdef" and rng.random() < 0.08:
                    # injected: second definition of the same constant / EQU-SET mixing
                    self.stats["injected"] += 1
                    self.emit(("D", n, self.val(), rng.random() < 0.5))

    def program(self):
        tree = self.plan((), 0)
        # original spellings of planned names
        self.orig = {}

        def collect(node):
            for d in node["defs"]:
                home = node["path"][:d["exp"][1]] if d["exp"] and d["exp"][0] == "P" else node["path"]
                self.orig[(home, self.f(d["name"]))] = d["name"]
                if d.get("comb"):
                    self.orig[(node["path"][:d["exp"][1]], self.f(d["comb"]))] = d["comb"]
            for k in node["kids"]:
                collect(k)
        collect(tree)
        self.body(tree)
        # trailing references from the global level (exports must be visible here)
        for _ in range(self.rng.choice([1, 2, 3])):
            self.use(())
        return self.out


def shadow_shape(rng, cs, forward, force_second_pass, depth, qualified=True):
    """outer definition before the use, inner definition after it (the manual's FORWARD example)"""
    names = rng.sample(SEC_POOL[:4], depth)
    out = [("D", "loop", 0x111, False)]
    for i, n in enumerate(names):
        out.append(("S", n))
        if i == 0 and rng.random() < 0.5:
            out.append(("D", "loop", 0x222, False))
    if forward:
        out.append(("F", [("loop", None)]))
    out.append(("U", "loop"))
    if qualified:
        out.append(("U", "loop[PARENT0]"))     # a forward reference of its own: asks for a second pass whatever FORWARD does
    out.append(("D", "loop", 0x333, False))
    out.append(("U", "loop"))
    for n in reversed(names):
        out.append(("E", None))
    out.append(("U", "loop"))
    if force_second_pass:
        out.append(("U", "later"))
        out.append(("D", "later", 0x444, False))
    return out


def range_shape(rng, cs, kind, in_section):
    """a label opens a range with `.t` and `$$t`; one definition of the given kind follows; `.t` and `$$t` are defined again and
    every composed name is read back (systematically, one program per kind of defining statement)"""
    g = Gen(rng, cs, 1)
    g.inj = None
    path = ("Proc",) if in_section else ()
    out = [("S", "Proc")] if in_section else []
    out += [("L", "first", "p"), ("L", ".t", "c"), ("U", ".t"), ("L", "$$t", "c"), ("U", "$$t")]
    sts, last, names = g.opener(path, "nxt", kind, [], ".t")
    out += sts
    out += [("U", ".t"), ("L", ".t", "c"), ("U", "$$t"), ("L", "$$t", "p"), ("U", ".t"), ("U", "$$t"),
            ("U", "first.t"), ("U", last + ".t")] + [("U", n) for n in names]
    if in_section:
        out.append(("E", None))
    return out


CORPUS_BUILTIN = [
    ("manual-temporaries-after-equ-set", False, "6502", [
        ("L", "proc1", "c"), ("L", ".loop", "c"), ("U", ".loop"), ("D", "size", 4, False, "equ"), ("L", ".loop", "c"), ("U", ".loop"),
        ("U", "proc1.loop"), ("U", "size.loop"), ("L", "$$t", "c"), ("U", "$$t"), ("D", "limit", 9, True, "set"), ("L", "$$t", "c"),
        ("U", "$$t")]),
    ("enum-values", False, "z80", [
        ("N", False, [("jan", 1), ("feb", None), ("mar", None)]), ("L", ".q"), ("N", True, [("apr", None), ("may", 9)]), ("L", ".q"),
        ("N", False, [("zero", None), ("one", None)]), ("U", "jan"), ("U", "feb"), ("U", "mar"), ("U", "apr"), ("U", "may"), ("U", "zero"),
        ("U", "one"), ("U", "mar.q"), ("U", "may.q")]),
    ("dollar-after-respelled-name", False, "6502", [
        ("D", "Tv", 1, True, "set"), ("L", "$$q"), ("D", "tv", 2, True, "asg"), ("L", "$$q"), ("U", "$$q")]),
    ("manual-scope-table", False, "6502", [
        ("D", "sym", 0, False), ("S", "ModuleA"), ("S", "ProcA1"), ("D", "sym", 5, False), ("U", "sym"), ("E", "ProcA1"),
        ("S", "ProcA2"), ("D", "sym", 10, False), ("U", "sym"), ("E", "ProcA2"), ("U", "sym"), ("E", "ModuleA"),
        ("S", "ModuleB"), ("D", "sym", 15, False), ("S", "ProcB"), ("U", "sym"), ("U", "sym[ModuleB]"), ("U", "sym[]"), ("E", "ProcB"),
        ("E", "ModuleB"), ("U", "sym")]),
    ("public-global", False, "z80", [
        ("S", "Aa"), ("S", "Bb"), ("P", [("pb", None)]), ("G", [("gb", None)]), ("P", [("pa", "Aa")]), ("G", [("ga", "PARENT")]),
        ("D", "pb", 0x11, False), ("D", "gb", 0x12, False), ("D", "pa", 0x13, False), ("D", "ga", 0x14, False), ("U", "gb"), ("E", None),
        ("U", "pb"), ("U", "pa"), ("U", "Bb_ga"), ("E", None), ("U", "pb"), ("U", "Aa_Bb_gb")]),
    ("popv-into-constant", False, "6502", [
        ("D", "kc", 1, False), ("D", "vv", 2, True), ("V", "s", ["vv"]), ("O", "s", ["kc"]), ("U", "kc")]),
    ("dollar-after-same-name", False, "6502", [
        ("D", "x9", 1, True), ("L", "$$t"), ("D", "x9", 2, True), ("L", "$$t"), ("U", "$$t")]),
    ("shadow-single-pass", False, "6502", [
        ("D", "loop", 0x111, False), ("S", "Sub"), ("U", "loop"), ("D", "loop", 0x333, False), ("E", None), ("U", "loop")]),
    ("case-U", True, "6502", [
        ("D", "sym", 1, False), ("D", "Sym", 2, False), ("D", "SYM", 3, False), ("U", "sym"), ("U", "Sym"), ("U", "SYM"),
        ("S", "Aa"), ("S", "aa"), ("D", "sym", 4, False), ("U", "sym[aa]"), ("U", "Sym[Aa]"), ("U", "sym[parent]"), ("E", "aa"), ("E", "Aa")]),
    ("nameless", False, "6502", [
        ("L", "-"), ("L", "/"), ("L", "-"), ("U", "-"), ("U", "--"), ("U", "---"), ("U", "+"), ("U", "++"), ("U", "+++"),
        ("L", "+"), ("L", "/"), ("L", "+"), ("U", "-")]),
    ("double-def", False, "6502", [("D", "kk", 1, False), ("D", "kk", 2, False), ("U", "kk")]),
    ("equ-then-set", False, "6502", [("D", "kk", 1, False), ("D", "kk", 2, True)]),
    ("set-then-equ", False, "6502", [("D", "kk", 1, True), ("D", "kk", 2, False)]),
]


# ----------------------------------------------------------------------------------------------
# real assembler

ERR_RE = re.compile(r"^> > > ?([^(:]*)(?:\((\d+)\))?.*?: (error|warning|fatal error|fatal) #(\d+)")


def run_real(bdir, wd, idx, stmts, cs, cpu):
    c = CPUS[cpu]
    src, line0 = source(stmts, c)
    name = "p%d" % idx
    f = os.path.join(wd, name + ".asm")
    open(f, "w", encoding="latin-1").write(src)
    flags = ["-q", "-n", "-E", name + ".err"] + (["-U"] if cs else []) + [name + ".asm", "-o", name + ".p"]
    rc, so, se = common.run_tool(bdir, "asl", flags, wd, timeout=60, env={"ASL_VERIF_MAX_PASSES": str(MAX_PASSES)})
    errs = []
    ef = os.path.join(wd, name + ".err")
    if os.path.exists(ef):
        for line in open(ef, errors="replace"):
            m = ERR_RE.match(line)
            if m:
                errs.append((int(m.group(2)) if m.group(2) else 0, int(m.group(4))))
            elif line.startswith("> > >") and "#" in line:
                errs.append((0, 0))
    pf = os.path.join(wd, name + ".p")
    pb = open(pf, "rb").read() if os.path.exists(pf) else None
    for x in (ef, pf, f):
        if os.path.exists(x):
            os.unlink(x)
    st = "timeout" if rc == "timeout" else ("sig" if (rc < 0 or rc >= 128) else str(rc))
    return st, errs, pb, src, line0


def images(pbs):
    """memory image from address 0 of each code file, decoded by the Lean SPEC reader (driver mode `pfile`)"""
    reqs = [pb.hex() for pb in pbs if pb]
    ans = iter(common.driver("pfile", reqs) if reqs else [])
    out = []
    for pb in pbs:
        if not pb:
            out.append(None)
            continue
        a = next(ans)
        if not a.startswith("ok"):
            out.append(None)
            continue
        mem = {}
        for it in a.split()[2:]:
            if it.startswith("D:"):
                cpu, seg, gran, start, hxs = it[2:].split(",")
                data = bytes.fromhex(hxs) if hxs != "-" else b""
                for i, b in enumerate(data):
                    mem[int(start) + i] = b
        n = (max(mem) + 1) if mem else 0
        out.append(bytes(mem.get(i, 0) for i in range(n)))
    return out


def kv(ans):
    return dict(x.split("=", 1) for x in ans.split() if "=" in x)


def request(case, obs):
    c = CPUS[case["cpu"]]
    return "%d %02x %d %s %s" % (1 if case["cs"] else 0, c["nop"], line0_of(case["stmts"]), obs, " ".join(tok(s) for s in case["stmts"]))


def classify(k, case, obs, src):
    base = dict(tag=case["tag"], request=request(case, obs), source=src, flags="-U" if case["cs"] else "", driver={a: b for a, b in k.items() if a not in ("exp",)})
    if k.get("spec") == "bad":
        why = k.get("why")
        sig = None
        if k.get("model") == "eq":
            if why == "bytes" and k.get("onlyshadow") == "1":
                sig = SIG_SHADOW
            elif why in ("bytes", "livelock") and k.get("popconst") == "1":
                sig = SIG_POPCONST
            elif why == "rejected-valid" and k.get("dollar") == "1":
                sig = SIG_DOLLAR
        d = dict(base, why="the manual's resolution (Spec/Scope.judge) does not hold on the real asl: " + str(why))
        if sig:
            d["sig"] = sig
        return "spec", d
    if k.get("model") != "eq":
        return "corr", dict(base, why="real asl differs from Model/Sym (spec held or does not judge)")
    return None, None


def run_cases(bdir, wd, cases):
    def one(ic):
        i, c = ic
        return run_real(bdir, wd, i, c["stmts"], c["cs"], c["cpu"])
    with ThreadPoolExecutor(max_workers=4) as ex:
        reals = list(ex.map(one, enumerate(cases)))
    imgs = images([r[2] for r in reals])
    reqs, obss = [], []
    for c, (st, errs, pb, src, line0), img in zip(cases, reals, imgs):
        obs = "%s;%s;%s" % (st, (img.hex() if img else "-") or "-", ",".join("%d:%d" % e for e in errs) or "-")
        obss.append(obs)
        reqs.append(request(c, obs))
    answers = common.driver("c13", reqs, timeout=1800)
    return reals, obss, answers


def load_stmt(x):
    k = x[0]
    if k in "FPG":
        return (k, [(a, b) for a, b in x[1]])
    if k in "VO":
        return (k, x[1], list(x[2]))
    if k == "N":
        return (k, x[1], [(a, b) for a, b in x[2]])
    return tuple(x)


def gen_cases(rng, n_rand, thorough):
    cases = []
    for name, cs, cpu, stmts in CORPUS_BUILTIN:
        cases.append(dict(tag="builtin:" + name, cs=cs, cpu=cpu, stmts=stmts, stats=None))
    cdir = os.path.join(common.VERIF, "corpus", "C13")
    if os.path.isdir(cdir):
        for f in sorted(os.listdir(cdir)):
            if f.endswith(".json"):
                d = json.load(open(os.path.join(cdir, f)))
                stmts = [load_stmt(x) for x in d["stmts"]]
                cases.append(dict(tag="corpus:" + f, cs=d.get("cs", False), cpu=d.get("cpu", "6502"), stmts=stmts, stats=None))
    # the multi-pass shapes, systematically
    for depth in (1, 2, 3, 4):
        for forward in (False, True):
            for force in (False, True):
                cases.append(dict(tag="shadow:d%d:f%d:p%d" % (depth, forward, force), cs=False, cpu=rng.choice(list(CPUS)),
                                  stmts=shadow_shape(rng, False, forward, force, depth), stats=None))
                if not force:
                    # the unqualified use is the only thing that can ask for the second pass (FORWARD must do it)
                    cases.append(dict(tag="shadow:d%d:f%d:p0:unq" % (depth, forward), cs=False, cpu=rng.choice(list(CPUS)),
                                      stmts=shadow_shape(rng, False, forward, False, depth, qualified=False), stats=None))
    # every kind of defining statement as the opener of a range of temporary symbols, systematically
    for kind in Gen.OPENERS:
        for in_section in (False, True):
            cs = rng.random() < 0.4
            cases.append(dict(tag="range:%s:s%d" % (kind, in_section), cs=cs, cpu=rng.choice(list(CPUS)),
                              stmts=range_shape(rng, cs, kind, in_section), stats=None))
    for i in range(n_rand):
        cs = rng.random() < 0.4
        g = Gen(rng, cs, rng.choice([1, 2, 3, 3, 4, 4]))
        stmts = g.program()
        if len(stmts) > 400:
            continue
        cases.append(dict(tag="rand:%d" % i, cs=cs, cpu=rng.choice(list(CPUS)), stmts=stmts, stats=g.stats))
    return cases


def run(args):
    res = common.Result("C13", args.tier, args.seed, "proof")
    bdir, audit, proof_problems = common.standard_setup(res, "C13", ["SymConsts"])
    if bdir is None:
        return res.finish()
    if any(p.startswith("driver does not build") for p in proof_problems):
        return common.conclude(res, proof_problems, [], [], 0)
    rng = common.rng_for(args.seed, "C13")
    thorough = args.tier == "thorough"
    cases = gen_cases(rng, 20000 if thorough else 1500, thorough)
    spec_fail, corr_fail, samples = [], [], []
    dist = dict(programs=len(cases), case_sensitive=0, cpu={}, verdict={}, passes={}, err_numbers={}, references_checked=0,
                shadowed_refs=0, statements=0)
    agg = {}
    distinct = set()
    with common.Workdir("c13") as wd:
        reals, obss, answers = run_cases(bdir, wd, cases)
    for c, (st, errs, pb, src, line0), obs, ans in zip(cases, reals, obss, answers):
        k = kv(ans)
        if not k:
            proof_problems.append("driver rejected a request: %s (%s)" % (c["tag"], ans[:80]))
            continue
        distinct.add(" ".join(tok(s) for s in c["stmts"]))
        dist["case_sensitive"] += 1 if c["cs"] else 0
        dist["cpu"][c["cpu"]] = dist["cpu"].get(c["cpu"], 0) + 1
        dist["verdict"][k.get("verdict")] = dist["verdict"].get(k.get("verdict"), 0) + 1
        dist["passes"][k.get("mpasses")] = dist["passes"].get(k.get("mpasses"), 0) + 1
        dist["statements"] += len(c["stmts"])
        dist["shadowed_refs"] += int(k.get("shadow", "0"))
        if k.get("verdict") == "accept" and k.get("spec") == "ok":
            dist["references_checked"] += int(k.get("swords", "0"))
        for _, n in errs:
            dist["err_numbers"][str(n)] = dist["err_numbers"].get(str(n), 0) + 1
        if c["stats"]:
            for a, b in c["stats"].items():
                agg[a] = max(agg.get(a, 0), b) if a == "maxdepth" else agg.get(a, 0) + b
        kind, d = classify(k, c, obs, src)
        if kind == "spec":
            spec_fail.append(d)
        elif kind == "corr":
            corr_fail.append(d)
        elif len(samples) < 4 and c["tag"].startswith("rand") and int(k.get("swords", "0")) >= 8 and c["stats"]["sections"] >= 3:
            samples.append(dict(tag=c["tag"], flags="-U" if c["cs"] else "", source=src[:900], observed=obs[:200], verdict=ans[:260]))
    dist["generator"] = agg
    # macro-local label spaces (c13_loc.py): constructs with local labels, Model/SymLoc + Spec/LocScope, driver mode c13l
    from . import c13_loc
    n_loc, loc_samples = c13_loc.run(bdir, common.rng_for(args.seed, "C13loc"), thorough, spec_fail, corr_fail, proof_problems, dist)
    samples += loc_samples
    res.coverage = common.proof_coverage(audit, "C13", [
        "translate/tables.py gen_symconsts (error numbers from errmsg.h by a compiled dumper, LOCSYMSIGHT through the preprocessor)",
        "correspondence: real asl vs Model/Sym on generated programs (differential test)",
        "MaxSymPass = 1 (asmdef.c) and the SHA-1 suffix of $$ names (modelled as an injective pairing) are read, not regenerated"])
    res.coverage.update(
        evaluations=len(cases) + n_loc, distinct_nontrivial=len([t for t in distinct if t.count(" ") >= 4]),
        rule="a case = one whole program (section tree + statements) under one -U setting; distinct by driver token list; non-trivial = at least five statements; "
             "references_checked counts the data words of accepted programs that were compared with the spec's resolution",
        samples=samples, distribution=dist)
    res.assumptions = [
        "only integer symbols; values 0..0x7fff so that a 16-bit data word shows the value",
        "label values are addresses computed as 2 bytes per data word and 1 byte per `nop` (address bookkeeping is C10's subject)",
        "section programs (mode c13) run outside macros; the one macro call that occurs there (`name mymac`, body = one `nop`, no "
        "parameters) is modelled as label + one byte.  Macro-local label spaces (mode c13l, Model/SymLoc): bodies are parameter-free "
        "(substitution is C11's subject), contain labels, data words, SET, nested constructs / macro calls and temporary symbols "
        "(composed names `.name` judged by Spec/LocTmp + LocScope; `$$name` and nameless ones compared with the model only), no sections "
        "or declarations; a reference in a called macro to a label of the calling body is compared with the model "
        "but not judged by the spec (the manual is silent)",
        "ENUM/NEXTENUM with the default ENUMCONF (increment 1, no segment)"]
    return common.conclude(res, proof_problems, spec_fail, corr_fail, len(cases) + n_loc)


def replay(args):
    d = json.load(open(args.replay))
    print(json.dumps({k: (v if len(str(v)) < 3000 else str(v)[:3000] + "...") for k, v in d.items()}, indent=1))
    if "source" in d and "request" in d:
        bdir = common.repo_build("hooks")
        with common.Workdir("c13r") as wd:
            f = os.path.join(wd, "r.asm")
            open(f, "w", encoding="latin-1").write(d["source"])
            flags = ["-q", "-n", "-E", "r.err"] + (["-U"] if d.get("flags") == "-U" else []) + ["r.asm", "-o", "r.p"]
            rc, so, se = common.run_tool(bdir, "asl", flags, wd, env={"ASL_VERIF_MAX_PASSES": str(MAX_PASSES)})
            print("asl", " ".join(flags), "-> status", rc)
            if os.path.exists(os.path.join(wd, "r.err")):
                print(open(os.path.join(wd, "r.err"), errors="replace").read())
            pf = os.path.join(wd, "r.p")
            if os.path.exists(pf):
                print("image:", images([open(pf, "rb").read()])[0].hex())
        print(common.driver(d.get("mode", "c13"), [d["request"]])[0])
    return 0
