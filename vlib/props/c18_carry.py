"""C18 - state a target selection / a pass leaves behind in the CORE (translate/carry.py, Props/C18_Carry.lean).

(A') obligations over Generated/GenCarry.lean: every core global some SwitchTo_* assigns and another does not is reset by SetCPUCore;
     every variable of a core module that is written during a pass is assigned on the per-pass / per-file path (exception lists in
     Props/C18_Carry.lean).
(C') differential classes, `asl f1 .. fn` against the stand-alone runs (the oracle is the property text itself):
  K  keyword occupation: predecessors select a target whose switch function sets one of the leftover globals of table (a) (the CPU
     names come from the generated table and the CPU dump, not from a list here: KENBAK/SHIFT, OLMS-50/SWITCH+PAGE, SX20/PAGE, the
     SET/SAVE/RESTORE owners, ...), optionally files for other targets in between, then a successor for a generic target that uses the
     generic meaning of the keywords (SHIFT in recursive / plain macros, SWITCH..CASE, PAGE/NEWPAGE, SET/SAVE/RESTORE, and the
     alternative spellings SHFT / SELECT / PAGESIZE, which a generic target must keep rejecting).
  T  temporary-symbol state: predecessors leave nameless `-` / `+` / `/` labels (1..6 of them, the backlog holds 3), `$$` named
     temporaries inside macro expansions, composed `.x` labels behind a global label; successors REFERENCE before they define
     (`-`, `--`, `---`, `+`, `++`, `.x`, `$$t` in absolute and relative jumps, before / between / behind the file's own definitions).
"""
import os
import re

from .. import common

# generic targets: cpu, origin, byte directive, absolute jump, relative jump, filler
TARGETS = [
    ("6502", "\torg $2000", "byt", "jmp %s", "bne %s", "nop"),
    ("z80", "\torg 2000h", "db", "jp %s", "jr %s", "nop"),
    ("68000", "\torg $2000", "dc.b", "jmp %s", "bra.s %s", "nop"),
    ("8051", "\torg 2000h", "db", "ljmp %s", "sjmp %s", "nop"),
    ("6809", "\torg $2000", "fcb", "jmp %s", "bra %s", "nop"),
    ("8086", "\torg 2000h", "db", "jmp %s", "jz %s", "nop"),
]


def kw_fragment(rng, t, kind, u):
    """statements that use the generic meaning of a keyword some target occupies; u makes names unique"""
    db = t[2]
    vals = [rng.randrange(1, 200) for _ in range(rng.randrange(1, 6))]
    if kind == "shift-rec":
        return ["sh%d\tmacro" % u, "\tif ARGCOUNT>0", "\t%s ALLARGS" % db, "\tshift", "\tsh%d ALLARGS" % u, "\tendif", "\tendm",
                "\tsh%d %s" % (u, ",".join(str(v) for v in vals))]
    if kind == "shift-plain":
        return ["sp%d\tmacro a,b,c" % u, "\t%s a" % db, "\tshift", "\t%s a" % db, "\tendm", "\tsp%d %d,%d,%d" % (u, vals[0], vals[-1], rng.randrange(200))]
    if kind == "shft-alt":
        return ["sa%d\tmacro a,b" % u, "\t%s a" % db, "\tshft", "\t%s a" % db, "\tendm", "\tsa%d %d,%d" % (u, vals[0], vals[-1])]
    if kind == "switch":
        sel = rng.randrange(4)
        out = ["\tswitch %d" % sel]
        for c in rng.sample(range(4), rng.randrange(1, 4)):
            out += ["\tcase %d" % c, "\t%s %d" % (db, 16 + c)]
        return out + ["\telsecase", "\t%s %d" % (db, vals[0]), "\tendcase"]
    if kind == "select-alt":
        return ["\tselect %d" % rng.randrange(3), "\tcase 1", "\t%s 1" % db, "\telsecase", "\t%s 2" % db, "\tendcase"]
    if kind == "page":
        return ["\tpage %d" % rng.choice([0, 20, 60, 66]), "\t%s %d" % (db, vals[0])] + (["\tnewpage"] if rng.random() < 0.5 else [])
    if kind == "page2":
        return ["\tpage %d,%d" % (rng.choice([0, 40, 60]), rng.choice([0, 80, 132])), "\t%s %d" % (db, vals[0])]
    if kind == "pagesize-alt":
        return ["\tpagesize %d" % rng.choice([20, 60]), "\t%s %d" % (db, vals[0])]
    if kind == "lexical":
        # what the hooks a switch function may install look at: comment lead-in, quotes, integer syntax, a symbol that looks like a register
        return ["\t%s 'a',%s,\"b;c\"\t; comment, 'quoted' // and more" % (db, HEX[t[0]] % vals[0]), "r%d\tequ %d" % (u % 8, vals[-1]), "\t%s r%d+1 ; %d" % (db, u % 8, u)]
    if kind == "set":
        return ["sv%d\tset %d" % (u, vals[0]), "\t%s sv%d" % (db, u), "sv%d\tset sv%d+1" % (u, u), "\t%s sv%d" % (db, u)]
    if kind == "save-restore":
        return ["\tsave", "\tlisting off", "\t%s %d" % (db, vals[0]), "\trestore", "\t%s %d" % (db, vals[-1])]
    raise AssertionError(kind)


KW_FAMILIES = [["shift-rec", "shift-plain"], ["switch"], ["page", "page2"], ["set", "save-restore"], ["lexical"]]
KW_ALT = ["shft-alt", "select-alt", "pagesize-alt"]
HEX = {"6502": "$%x", "68000": "$%x", "6809": "$%x", "z80": "0%xh", "8051": "0%xh", "8086": "0%xh"}


def kw_successor(rng, u, family):
    """one fragment of the given keyword family, up to two of random other families, sometimes an alternative spelling"""
    t = rng.choice(TARGETS)
    lines = ["\tcpu " + t[0], t[1], "\t" + t[5]]
    kinds = [rng.choice(KW_FAMILIES[family % len(KW_FAMILIES)])]
    for f in rng.sample(KW_FAMILIES, rng.randrange(0, 3)):
        k = rng.choice(f)
        if k not in kinds:
            kinds.append(k)
    if rng.random() < 0.2:
        kinds.append(rng.choice(KW_ALT))
    rng.shuffle(kinds)
    for i, k in enumerate(kinds):
        lines += kw_fragment(rng, t, k, u * 10 + i)
    return lines + ["\t" + t[5]], sorted(set(kinds)), t[0]


def plain_file(rng):
    t = rng.choice(TARGETS)
    return ["\tcpu " + t[0], t[1], "\t" + t[5], "\t%s %d" % (t[2], rng.randrange(256)), "\t" + t[5]]


# ---- temporary symbols

def tmp_predecessor(rng):
    """a correct file that leaves temporary-symbol state of the chosen kinds"""
    t = rng.choice(TARGETS)
    lines = ["\tcpu " + t[0], t[1]]
    kinds = set()
    for _ in range(rng.randrange(1, 5)):
        k = rng.choice(["back", "back", "fwd", "slash", "named", "composed"])
        kinds.add(k)
        if k == "back":
            for _i in range(rng.randrange(1, 4)):
                lines += ["-\t" + t[5], "\t" + t[4] % "-"]
        elif k == "fwd":
            lines += ["\t" + t[4] % "+", "\t" + t[5], "+\t" + t[5]]
        elif k == "slash":
            lines += ["\t" + t[4] % "+", "/\t" + t[5], "\t" + t[4] % "-"]
        elif k == "named":
            u = rng.randrange(1000)
            lines += ["tm%d\tmacro" % u, "$$lp:\t" + t[5], "\t" + t[4] % "$$lp", "\tendm"] + ["\ttm%d" % u] * rng.randrange(1, 4)
        else:
            u = rng.randrange(1000)
            lines += ["glob%d:\t%s" % (u, t[5]), ".x:\t" + t[5], "\t" + t[4] % ".x", ".y:\t" + t[5], "\t" + t[3] % ".y"]
    return lines, sorted(kinds)


def tmp_successor(rng):
    """references to temporary symbols before (and between / behind) the file's own definitions"""
    t = rng.choice(TARGETS)
    lines = ["\tcpu " + t[0], t[1], "\t" + t[5]]
    kinds = []

    def ref(sym):
        j = rng.choice([3, 3, 3, 4])
        kinds.append("%s:%s" % ("abs" if j == 3 else "rel", sym))
        return "\t" + t[j] % sym
    early = rng.choice(["-", "-", "--", "---", "+", "++", ".x", "$$t", "-"])
    lines.append(ref(early))
    lines.append("\t" + t[5])
    # the file's own definitions, with more references in between
    for _ in range(rng.randrange(1, 5)):
        k = rng.choice(["back", "back", "fwd", "slash", "composed", "named", "refback"])
        if k == "back":
            lines += ["-\t" + t[5], "\t" + t[4] % "-"]
        elif k == "fwd":
            lines += ["+\t" + t[5]]
        elif k == "slash":
            lines += ["/\t" + t[5]]
        elif k == "composed":
            lines += ["gs%d:\t%s" % (rng.randrange(1000), t[5]), ".x:\t" + t[5], ref(".x")]
        elif k == "named":
            lines += ["$$t:\t" + t[5], ref("$$t")]
        else:
            lines.append(ref(rng.choice(["-", "--", "---", "+"])))
    lines += ["\t" + t[5], "+\t" + t[5], "+\t" + t[5], "\t" + t[5]]
    return lines, early, sorted(set(kinds)), t[0]


def occupiers(bdir):
    """{leftover global: [CPU names whose switch function assigns it]} from the generated inventory and the CPU dump"""
    from translate import carry, targetdesc
    inv = carry.inventory(bdir)
    _rows, dyn, _bf = targetdesc.joined(bdir)
    by_func = {}
    for c in dyn:
        by_func.setdefault(c["func"], []).append(c["name"])
    out = {}
    for r in inv["leftovers"]:
        names = []
        for s in r["setters"]:
            names += by_func.get(s.split(":", 1)[1], [])[:3]
        if names:
            out[r["var"]] = (names, r["nsetters"])
    return out


def run(C, bdir, wd, args, rng, spec_fail, proof_problems, dist, distinct, samples):
    quick = args.tier == "quick"
    evaluations = 0
    single_cache = {}

    def single(nm, lines):
        key = (nm, "\n".join(lines))
        if key not in single_cache:
            r = C.run_joint(bdir, wd, "cy", [(nm, lines)])
            single_cache[key] = (r[0], r[1], r[2], r[3][0])
        return single_cache[key]

    def history(tag, sig, srcs, why):
        nonlocal evaluations
        sing = [single(nm, lines) for nm, lines in srcs]
        if any(s[0] not in (0, 2) for s in sing):
            dist["carry_skipped_fatal"] = dist.get("carry_skipped_fatal", 0) + 1
            return None
        r = C.run_joint(bdir, wd, "cy", srcs)
        evaluations += 1
        distinct.add("carry:" + tag + ":" + str(hash("\n\n".join("\n".join(l) for _n, l in srcs)) & 0xffffffff))
        d = C.compare_joint(sing, (r[0], r[1], r[2], r[3]))
        if d:
            spec_fail.append(dict(tag=tag, sig=sig, why="%s: %s" % (why, d), sources=srcs))
        return sing

    # ---------------- K: keyword occupation
    try:
        occ = occupiers(bdir)
    except Exception as ex:           # translator problems are reported by standard_setup already
        occ = {}
        if not any("translator" in p for p in proof_problems):
            proof_problems.append("translator: carry: %s" % ex)
    dist["carry_leftover_globals_with_cpu"] = {v: n for v, (_c, n) in sorted(occ.items())}
    # few-setter globals are the "occupied" kind (a handful of targets set them); the many-setter ones get one predecessor each
    cpus_by_var = {v: names for v, (names, _n) in occ.items()}
    pool = sorted({n for v, names in cpus_by_var.items() for n in names})
    dist["carry_kw_histories"] = 0
    dist["carry_kw_kinds"] = {}
    dist["carry_kw_succ_failing_alone"] = 0
    u = 0
    for v in sorted(cpus_by_var):
        # a global only a few targets set is the "occupied keyword" kind: every keyword family at least once per round of five
        few = occ[v][1] <= 3
        rounds = (5 if few else 2) * (1 if quick else 6)
        for rnd in range(rounds):
            u += 1
            pc = rng.choice(cpus_by_var[v])
            pred = ("kp", ["\tcpu " + pc, "lkp%d:" % u, "\tif 0", "\tendif"])
            if single(*pred)[0] != 0:
                pred = ("kp", ["\tcpu " + pc])
            succ_lines, kinds, scpu = kw_successor(rng, u, rnd if few else rng.randrange(5))
            srcs = [pred]
            shape = rng.choice(["pair", "pair", "mid", "two-preds"])
            if shape == "mid":
                srcs.append(("km", plain_file(rng)))
            elif shape == "two-preds" and pool:
                srcs.append(("kq", ["\tcpu " + rng.choice(pool)]))
            srcs.append(("ks", succ_lines))
            sing = history("kw:%s:%s:%s" % (v, pc, shape), "core-global-left-by-cpu-switch:" + v, srcs,
                           "a predecessor that selected CPU %s (its switch function sets %s) changes the result of a later %s file using %s" % (pc, v, scpu, "/".join(kinds)))
            if sing is None:
                continue
            dist["carry_kw_histories"] += 1
            if sing[-1][0] != 0:
                dist["carry_kw_succ_failing_alone"] += 1
            for k in kinds:
                dist["carry_kw_kinds"][k] = dist["carry_kw_kinds"].get(k, 0) + 1
            if len(samples) < 6 and rnd == 0 and v in ("ShiftIsOccupied", "PageIsOccupied"):
                samples.append(dict(tag="carry-kw:" + v, sources=srcs))

    # ---------------- T: temporary-symbol state
    dist["carry_tmp_histories"] = 0
    dist["carry_tmp_pred_kinds"] = {}
    dist["carry_tmp_early_refs"] = {}
    dist["carry_tmp_succ_failing_alone"] = 0
    for k in range(60 if quick else 600):
        pl, pk = tmp_predecessor(rng)
        sl, early, sk, scpu = tmp_successor(rng)
        srcs = [("tp", pl)]
        shape = rng.choice(["pair", "pair", "mid", "two-preds"])
        if shape == "mid":
            srcs.append(("tm", plain_file(rng)))
        elif shape == "two-preds":
            srcs.append(("tq", tmp_predecessor(rng)[0]))
        srcs.append(("ts", sl))
        sing = history("tmp:%d:%s" % (k, shape), "tmpsym-state-survives-file:" + "+".join(pk), srcs,
                       "a predecessor that leaves temporary-symbol state (%s) changes the result of a later %s file that refers to `%s` before defining it" % ("/".join(pk), scpu, early))
        if sing is None:
            continue
        dist["carry_tmp_histories"] += 1
        for x in pk:
            dist["carry_tmp_pred_kinds"][x] = dist["carry_tmp_pred_kinds"].get(x, 0) + 1
        dist["carry_tmp_early_refs"][early] = dist["carry_tmp_early_refs"].get(early, 0) + 1
        if sing[-1][0] != 0:
            dist["carry_tmp_succ_failing_alone"] += 1
        if sing[0][0] != 0:
            dist["carry_tmp_pred_failing_alone"] = dist.get("carry_tmp_pred_failing_alone", 0) + 1
        if k == 0:
            samples.append(dict(tag="carry-tmp", sources=srcs))
    from translate import carry, carry_selftest
    wrong = carry_selftest.run()
    if wrong:
        proof_problems.append("translator: carry analyser self-test: " + "; ".join(wrong[:4]))
    try:
        inv = carry.inventory(bdir)
        ev = dict(analyser_selftest="ok" if not wrong else wrong, core_rows=len(inv["rows"]), leftovers=len(inv["leftovers"]), switch_functions=inv["nswitch"],
                  rows_not_reset=["%s:%s" % (r["file"], r["var"]) for r in inv["rows"] if not (r["perPass"] or r["perFile"])],
                  leftovers_not_reset=[r["var"] for r in inv["leftovers"] if not r["setCPUCore"]],
                  per_pass_functions=len(inv["passFuncs"]), per_file_functions=len(inv["fileFuncs"]))
    except Exception as ex:
        ev = dict(error=str(ex))
    return evaluations, ev
