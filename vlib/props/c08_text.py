"""C08, values that pass through TEXT on their way through the evaluator: arguments of user-defined functions (FUNCTION).

asmpars.c EvalStrExpression(), branch "selbstdefinierte Funktion": every evaluated argument is printed by
tempresult.c as_tempres_append_dynstr(), substituted for the formal parameter and the text is evaluated again.
SPEC (manual, FUNCTION): a call means the defining expression with the VALUES of the arguments - exact, bit for bit
(Lean `Spec/FuncCall.eval`).  MODEL: `Model/FuncText` (the print functions with the generated precision + the re-read under
the RADIX of the moment).  Observation: exact, through the bytes of DQ / DB statements in the code file (8086 target)."""
import json
import os
import re
import struct

from .. import common

M64 = (1 << 64) - 1
SLOT = 128
# (name, number of parameters, body text, body in the driver's prefix notation)
FUNCS = [
    ("tfid", 1, "pa", "P0"), ("tffst", 2, "pa", "P0"), ("tfsnd", 2, "pb", "P1"), ("tfthd", 3, "pc", "P2"),
    ("tfadd", 2, "pa+pb", "+ P0 P1"), ("tfdbl", 1, "pa+pa", "+ P0 P0"), ("tfsq", 1, "pa*pa", "* P0 P0"),
    ("tfsub", 2, "pa-pb", "- P0 P1"), ("tfeq", 2, "pa=pb", "= P0 P1"), ("tfnest", 1, "tfid(pa)", "C0 P0"),
    ("tfmix", 3, "pa*pb+pc", "+ * P0 P1 P2"), ("tfself", 1, "tfid(pa)=pa", "= C0 P0 P0"), ("tfswap", 2, "tfsnd(pb,pa)", "D2 P1 P0"),
    ("tfmid", 3, "pb", "P1"),
]
PROJ1 = [0, 9]
PROJ = [0, 1, 2, 3, 9, 12, 13]
ARITH = [4, 5, 6, 7, 10]
CALLTOK = {1: "C", 2: "D", 3: "T"}


def f2b(x):
    return struct.unpack("<Q", struct.pack("<d", x))[0]


def b2f(b):
    return struct.unpack("<d", struct.pack("<Q", b))[0]


def finite(b):
    return (b >> 52) & 2047 != 2047


def to_base(v, b):
    s = ""
    while True:
        s = "0123456789ABCDEFGHIJKLMNOPQRSTUVWXYZ"[v % b] + s
        v //= b
        if not v:
            return s


class Gen:
    def __init__(self, rng):
        self.rng = rng

    # ---- atoms
    def flt_atom(self, mild=False):
        r = self.rng
        k = r.randrange(10)
        if k < 3:
            # values whose shortest decimal form needs 17 significant digits, as formulas
            return r.choice([("bin", "+", ("F", f2b(0.1)), ("F", f2b(0.2))), ("Q", ("F", f2b(2.0))), ("Q", ("F", f2b(3.0))),
                             ("bin", "*", ("F", f2b(0.1)), ("F", f2b(3.0))), ("bin", "-", ("F", f2b(1.0)), ("F", f2b(0.9))),
                             ("bin", "+", ("F", f2b(0.7)), ("F", f2b(0.1))), ("Q", ("F", f2b(r.randrange(2, 200) + 0.5))),
                             ("bin", "*", ("F", f2b(1.1)), ("F", f2b(1.1))), ("bin", "+", ("F", f2b(r.randrange(1, 99) / 10.0)), ("F", f2b(r.randrange(1, 99) / 100.0)))])
        if k < 7:
            # random 64-bit patterns (finite); `mild`: exponents near 0 so that sums and products stay finite and normal
            while True:
                b = r.getrandbits(64)
                if mild:
                    b = (b & ~(2047 << 52)) | ((1023 + r.randrange(-40, 40)) << 52)
                if finite(b):
                    return ("F", b)
        if k < 8 and not mild:
            return ("F", r.choice([1, 2, f2b(2.2250738585072014e-308), f2b(2.225073858507201e-308), f2b(1.7976931348623157e308),
                                   f2b(-1.7976931348623157e308), f2b(4.9406564584124654e-324) | (1 << 63), f2b(-0.0), f2b(0.0),
                                   f2b(9007199254740993.0), f2b(1e23), f2b(8.5e-321)]))
        return ("F", f2b(r.choice([0.5, 1.0, -0.125, 1.1, 1.0 / 3.0, 2.0 / 3.0, 0.1, 1e16, 1e-5, 123456.789, -2.5e-7, 3.141592653589793, 1e22, 5e-5])))

    def int_atom(self, radix):
        r = self.rng
        if radix <= 10 and r.random() < 0.4:
            return ("I", r.choice([0, 1, 7, 8, 9, 10, 15, 16, 255, (1 << 31) - 1, 1 << 31, (1 << 32) - 1, 1 << 32, (1 << 63) - 1, 1 << 63,
                                   (1 << 63) + 1, M64, M64 - 1, 1 << 62, 10 ** 18, 10 ** 19, 0xAAAAAAAAAAAAAAAA]))
        # digit strings of the radix written with decimal digits only (no letter: no clash with suffix notations)
        n = r.choice([1, 1, 2, 2, 3, 5, 8, 12, 16, 19])
        ds = "".join(r.choice("0123456789"[:min(radix, 10)]) for _ in range(n))
        v = int(ds, radix)
        if v > M64:
            v = r.getrandbits(r.randrange(1, 64)) if radix >= 10 else int(ds[:8], radix)
        return ("I", v)

    def str_atom(self):
        r = self.rng
        k = r.randrange(10)
        n = r.choice([0, 1, 1, 2, 3, 5, 8, 12])
        if k < 5:
            pool = "abcXYZ019 ,;()+-*/'\"\\\\{}$%&=<>!?"
        elif k < 8:
            pool = "ab,\"\\'" + "".join(chr(c) for c in (1, 7, 8, 9, 10, 13, 27, 31, 127, 2, 20))
        else:
            pool = "ab\"\\" + "".join(chr(c) for c in (128, 129, 160, 200, 254, 255, 10))
        return ("S", "".join(r.choice(pool) for _ in range(n)).encode("latin-1"))

    def atom(self, ty, radix, mild=False):
        return self.flt_atom(mild) if ty == "F" else self.int_atom(radix) if ty == "I" else self.str_atom()

    def arg(self, ty, radix, d, mild=False):
        r = self.rng
        if d > 0 and r.random() < 0.3:
            # nested call that delivers the wanted type
            f = r.choice(PROJ)
            n = FUNCS[f][1]
            which = {0: 0, 1: 0, 2: 1, 3: 2, 9: 0, 12: 0, 13: 1}[f]
            args = [self.arg(ty if i == which else r.choice("IFS"), radix, d - 1, mild) for i in range(n)]
            return ("call", f, args)
        return self.atom(ty, radix, mild)

    def case(self, cls):
        """(class, radix, tree)"""
        r = self.rng
        if cls == "float":
            radix = 10
            k = r.randrange(10)
            if k < 4:
                f = r.choice(PROJ)
                which = {0: 0, 1: 0, 2: 1, 3: 2, 9: 0, 12: 0, 13: 1}[f]
                args = [self.arg("F" if i == which else r.choice("IFS"), radix, 2) for i in range(FUNCS[f][1])]
                t = ("call", f, args)
            elif k < 7:
                f = r.choice(ARITH)
                t = ("call", f, [self.arg("F", radix, 1, mild=True) for _ in range(FUNCS[f][1])])
            elif k < 9:
                a = self.arg("F", radix, 1)
                t = r.choice([("call", 11, [a]), ("bin", "=", ("call", r.choice(PROJ1), [a]), a), ("call", 8, [a, a])])
            else:
                t = ("call", r.choice(ARITH), [self.arg(r.choice("IF"), radix, 1, mild=True) for _ in range(3)][:FUNCS[r.choice(ARITH)][1]])
                f = r.choice(ARITH)
                t = ("call", f, [self.arg(r.choice("IF"), radix, 1, mild=True) for _ in range(FUNCS[f][1])])
            return cls, radix, t
        if cls == "int":
            radix = r.choice([10, 10, 10, 16, 8, 2, r.randrange(3, 37)])
            k = r.randrange(10)
            if k < 5:
                f = r.choice(PROJ)
                which = {0: 0, 1: 0, 2: 1, 3: 2, 9: 0, 12: 0, 13: 1}[f]
                args = [self.arg("I", radix, 2) for i in range(FUNCS[f][1])]
                t = ("call", f, args)
            elif k < 8:
                f = r.choice(ARITH + [8])
                t = ("call", f, [self.arg("I", radix, 1) for _ in range(FUNCS[f][1])])
            else:
                a = self.arg("I", radix, 1)
                t = r.choice([("call", 11, [a]), ("bin", "=", ("call", r.choice(PROJ1), [a]), a)])
            return cls, radix, t
        radix = 10
        k = r.randrange(10)
        if k < 6:
            f = r.choice(PROJ)
            which = {0: 0, 1: 0, 2: 1, 3: 2, 9: 0, 12: 0, 13: 1}[f]
            args = [self.arg("S" if i == which else r.choice("IFS"), radix, 2) for i in range(FUNCS[f][1])]
            t = ("call", f, args)
        elif k < 8:
            f = r.choice([4, 5, 8])
            t = ("call", f, [self.arg("S", radix, 1) for _ in range(FUNCS[f][1])])
        else:
            a = self.arg("S", radix, 1)
            t = r.choice([("call", 11, [a]), ("bin", "=", ("call", r.choice(PROJ1), [a]), a)])
        return cls, radix, t


def ser(t):
    k = t[0]
    if k == "I":
        return "I%d" % t[1]
    if k == "F":
        return "F%d" % t[1]
    if k == "S":
        return "S" + (t[1].hex() or "-")
    if k == "bin":
        return "%s %s %s" % (t[1], ser(t[2]), ser(t[3]))
    if k == "Q":
        return "Q " + ser(t[1])
    if k == "call":
        return "%s%d %s" % (CALLTOK[len(t[2])], t[1], " ".join(ser(a) for a in t[2]))
    raise AssertionError(t)


def render(t, radix):
    k = t[0]
    if k == "I":
        return to_base(t[1], radix)
    if k == "F":
        x = b2f(t[1])
        s = repr(abs(x))
        return "(-%s)" % s if t[1] >> 63 else s
    if k == "S":
        return '"' + "".join(("\\" + chr(c)) if c in (34, 92) else chr(c) if 32 <= c < 127 else "\\x%02x" % c for c in t[1]) + '"'
    if k == "bin":
        return "(%s%s%s)" % (render(t[2], radix), t[1], render(t[3], radix))
    if k == "Q":
        return "sqrt(%s)" % render(t[1], radix)
    if k == "call":
        return "%s(%s)" % (FUNCS[t[1]][0], ",".join(render(a, radix) for a in t[2]))
    raise AssertionError(t)


def lits_under_call(t, inside=False):
    if t[0] in "IFS" and len(t[0]) == 1:
        if inside:
            yield t
    elif t[0] == "bin":
        yield from lits_under_call(t[2], inside)
        yield from lits_under_call(t[3], inside)
    elif t[0] == "Q":
        yield from lits_under_call(t[1], inside)
    elif t[0] == "call":
        for a in t[2]:
            yield from lits_under_call(a, True)


def signature(radix, t):
    """known classes of argument values that do not survive their text form on the unchanged tree"""
    lits = list(lits_under_call(t))
    if any(l[0] == "S" and any(c >= 128 for c in l[1]) for l in lits):
        return "function-string-argument-8bit-character"
    if any(l[0] == "S" and any(c < 32 for c in l[1]) for l in lits):
        return "function-string-argument-control-character-octal"
    if radix != 10 and any(l[0] == "I" for l in lits):
        return "function-int-argument-decimal-text-reread-in-radix"
    return None


HEADER = ["\tcpu 8086", "\toutradix 10", "\tradix 10"] + ["%s\tfunction %s,%s" % (n, ",".join(["pa", "pb", "pc"][:k]), b) for n, k, b, _ in FUNCS]
ERR_LINE = re.compile(rb"\((\d+)\)(?::\d+)?\s*:\s*error")


def case_lines(k, radix, text, want_str):
    L = []
    if radix != 10:
        L.append("\tradix %d" % radix)
    L.append("tv%d\tset %s" % (k, text))
    if radix != 10:
        L.append("\tradix 10")
    L.append("\torg %d" % (k * SLOT))
    L.append("\tdb exprtype(tv%d)+1" % k)
    if want_str:
        L.append("\tdb strlen(tv%d)" % k)
        L.append('\tdb "<"+tv%d+">"' % k)
    else:
        L.append("\tdq tv%d" % k)
    return L


def assemble(bdir, wd, tag, cases, stats):
    """cases: [(radix, text, want_str)] -> outcomes ('I', n) | ('F', bits) | ('S', bytes) | ('err',) | ('missing',)"""
    out = [("missing",)] * len(cases)
    live = list(range(len(cases)))
    for attempt in range(2):
        src = list(HEADER)
        owner = {}
        for k in live:
            for l in case_lines(k, *cases[k]):
                src.append(l)
                owner[len(src)] = k
        f = os.path.join(wd, "%s_%d.asm" % (tag, attempt))
        open(f, "w", encoding="latin-1").write("\n".join(src) + "\n")
        stats["asl_runs"] += 1
        rc, so, se = common.run_tool(bdir, "asl", ["-q", "-n", f, "-o", f[:-4] + ".p"], wd, timeout=120)
        if rc == "timeout" or (isinstance(rc, int) and rc < 0):
            stats["crashes"] += 1
            return out, "asl ended with status %s on %s" % (rc, f)
        bad = set()
        for m in ERR_LINE.finditer(se + so):
            k = owner.get(int(m.group(1)))
            if k is not None:
                bad.add(k)
        if bad:
            for k in bad:
                out[k] = ("err",)
            live = [k for k in live if k not in bad]
            continue
        if not os.path.exists(f[:-4] + ".p"):
            return out, "no code file and no error message attributed to a case (%s)" % (se + so)[:200]
        img = f[:-4] + ".bin"
        rc2, so2, se2 = common.run_tool(bdir, "p2bin", ["-q", "-l", "0", "-r", "0-%d" % (len(cases) * SLOT + SLOT), f[:-4] + ".p", img], wd)
        if not os.path.exists(img):
            return out, "p2bin: %s" % (se2 + so2)[:200]
        data = open(img, "rb").read()
        for k in live:
            s = data[k * SLOT:(k + 1) * SLOT]
            ty = s[0] if s else 0
            if ty == 1:
                out[k] = ("I", int.from_bytes(s[1:9], "little"))
            elif ty == 2:
                out[k] = ("F", int.from_bytes(s[1:9], "little"))
            elif ty == 3 and cases[k][2]:
                n = s[1]
                out[k] = ("S", bytes(s[3:3 + n])) if s[2:3] == b"<" and s[3 + n:4 + n] == b">" else ("S?", bytes(s[:4 + n]))
            elif ty == 3:
                out[k] = ("S?", b"")
        for p in (f, f[:-4] + ".p", img):
            if os.path.exists(p):
                os.unlink(p)
        return out, None
    return out, "errors remain after the cases with errors were removed"


def show(o):
    if o[0] == "I":
        return "integer %d (0x%x)" % (o[1], o[1])
    if o[0] == "F":
        return "float %r (bits 0x%016x)" % (b2f(o[1]), o[1])
    if o[0] in ("S", "S?"):
        return "string %r" % o[1]
    return o[0]


def of_driver(v):
    if v[0] == "I":
        return ("I", int(v[1:]))
    if v[0] == "F":
        return ("F", int(v[1:]))
    if v[0] == "S":
        return ("S", bytes.fromhex(v[1:] if v[1:] != "-" else ""))
    return (v,)


def request(radix, t):
    return "%d %s # %s" % (radix, " | ".join(f[3] for f in FUNCS), ser(t))


def source_of(radix, text, want_str):
    return "\n".join(HEADER + case_lines(0, radix, text, want_str)) + "\n"


def run(bdir, wd, seed, tier, stats, dist, spec_fail, corr_fail, samples, proof_problems):
    rng = common.rng_for(seed, "C08text")
    g = Gen(rng)
    n = {"quick": 1500, "thorough": 12000}[tier]
    cases = [g.case(["float", "float", "int", "string"][i % 4]) for i in range(n)]
    # hand-written members of the class, run first
    cases = [("float", 10, ("call", 0, [("bin", "+", ("F", f2b(0.1)), ("F", f2b(0.2)))])), ("float", 10, ("call", 4, [("Q", ("F", f2b(2.0))), ("F", 0)])),
             ("int", 10, ("call", 0, [("I", (1 << 63) - 1)])), ("int", 10, ("call", 0, [("I", 1 << 63)])), ("string", 10, ("call", 2, [("I", 1), ("S", b"a,b")]))] + cases
    reqs = [request(radix, t) for _, radix, t in cases]
    ans = common.driver("c08t", reqs)
    d = dict(cases=len(cases), by_class={}, by_radix={}, spec_not_judged=0, model_outside=0, model_error=0, real_error=0, by_result={})
    rows = []
    for (cls, radix, t), a in zip(cases, ans):
        m = re.match(r"^spec=(\S+) model=(\S+)$", a)
        if not m:
            proof_problems.append("driver rejected request (c08t): " + request(radix, t)[:200])
            continue
        rows.append((cls, radix, t, of_driver(m.group(1)), of_driver(m.group(2))))
    real = []
    chunk = 400          # 400 slots of 128 bytes: inside the 64K of the 8086 code segment
    for i in range(0, len(rows), chunk):
        part = rows[i:i + chunk]
        o, problem = assemble(bdir, wd, "tx%d" % i, [(radix, render(t, radix), spec[0] == "S") for _, radix, t, spec, _ in part], stats)
        if problem:
            proof_problems.append("C08 text: " + problem)
        real += o
    n_eval = 0
    for (cls, radix, t, spec, model), o in zip(rows, real):
        n_eval += 1
        d["by_class"][cls] = d["by_class"].get(cls, 0) + 1
        d["by_radix"][radix] = d["by_radix"].get(radix, 0) + 1
        d["by_result"][o[0]] = d["by_result"].get(o[0], 0) + 1
        if spec == ("N",):
            d["spec_not_judged"] += 1
            continue
        d["model_outside"] += model == ("O",)
        d["model_error"] += model == ("E",)
        d["real_error"] += o == ("err",)
        spec_ok = o == spec
        model_ok = model == ("O",) or (model == ("E",) and o == ("err",)) or o == model
        text = render(t, radix)
        if spec_ok and model_ok:
            if len(samples) < 10 and cls == "float" and rng.random() < 0.02:
                samples.append(dict(text=text, radix=radix, asl=show(o), spec=show(spec)))
            continue
        entry = dict(sig=signature(radix, t), text=text, radix=radix, formula=request(radix, t), asl=show(o), spec=show(spec), model=show(model),
                     func_source=source_of(radix, text, spec[0] == "S"),
                     why="a call of a user-defined function does not deliver the defining expression's value on the VALUES of the arguments (exact comparison)")
        if not spec_ok:
            spec_fail.append(entry)
            if not model_ok and entry["sig"] is not None:
                corr_fail.append(dict(entry, why="real assembler and Lean model (Model/FuncText) disagree on an input of a known finding's class"))
        else:
            corr_fail.append(dict(entry, why="real assembler and Lean model (Model/FuncText) disagree (the documented value is met)"))
    dist["function_argument_text"] = d
    return n_eval


def replay(d):
    bdir = common.repo_build("hooks")
    with common.Workdir("c08tr") as wd:
        f = os.path.join(wd, "rp.asm")
        open(f, "w", encoding="latin-1").write(d["func_source"])
        rc, so, se = common.run_tool(bdir, "asl", ["-q", "-n", f, "-o", f[:-4] + ".p"], wd)
        print("asl now: status", rc, (se + so).decode("latin-1")[:400])
        if os.path.exists(f[:-4] + ".p"):
            common.run_tool(bdir, "p2bin", ["-q", "-l", "0", "-r", "0-%d" % SLOT, f[:-4] + ".p", f[:-4] + ".bin"], wd)
            if os.path.exists(f[:-4] + ".bin"):
                print("slot bytes (type+1, then value):", open(f[:-4] + ".bin", "rb").read()[:48].hex())
        print("driver :", common.driver("c08t", [d["formula"]])[0])
    return 0
