"""C19, symbols: the listing's symbol table and the share file state every symbol's final value

* symbol table of the listing (asmpars.c PrintSymbolList / _PNode / _AddOut): names of varying byte and display
  width (ASCII, ISO 8859-1 bytes, UTF-8 multi-byte characters; character set chosen through LC_CTYPE / LC_ALL /
  LANG or -codepage), names so long that an entry fills a line of its own or more than a line, section-local
  symbols, integers / floats / strings, -U, -h, -LISTRADIX, PAGE widths;
* share files in the three formats (-p / -c / -a) on targets of all four integer syntaxes (Intel suffix,
  Motorola $, C 0x, IBM x'..') under -h, RELAXED, OUTRADIX, with values whose leading hex digit is a letter,
  negative values, floats, strings, SET symbols; an assembler-format share file is read back by a second program
  on the same target that includes it (observed through that program's MAP file).

SPEC readers and the MODEL run in the Lean driver (mode c19s, Driver/C19S.lean)."""
import os
import subprocess

from .. import common

# integer syntax family of the target (doc/assembler-usage.md, "integer constants"; code*.c SetIntConstMode)
TARGETS = [
    ("z80", "intel"), ("8051", "intel"), ("8086", "intel"), ("8080", "intel"),
    ("6502", "moto"), ("6809", "moto"), ("68000", "moto"),
    ("atmega8", "c"), ("sc/mp", "c"), ("8070", "c"), ("cop87l84", "c"),
    ("mn1610", "ibm"), ("mn1613", "ibm"),
]
ASM_FMT = {"intel": "asmIntel", "moto": "asmMoto", "c": "asmC", "ibm": "asmIBM"}
INT_POOL = [0, 1, 9, 10, 15, 16, 153, 159, 160, 255, 256, 0x9fff, 0xa000, 65535, 65536, 2 ** 31, 2 ** 32 - 1, 2 ** 32 + 5,
            -1, -2, -86, -32768, -2 ** 31, 2 ** 63 - 1, -2 ** 63, 0xabcdef, 0xfedcba9876543210 - 2 ** 64]
RADIX_POOL = [2, 8, 10, 7, 36]
FIRST = "gjkq"
ASCII_REST = "abcdefghijklmnopqrstuvwxyzABCDEFGHIJKLMNOPQRSTUVWXYZ0123456789_"
# characters beyond ASCII that are valid in symbol names and that the case-insensitive mode leaves as they are
UTF8_STABLE = "ÄÖÜß" + "".join(chr(c) for c in range(0x391, 0x3aa) if c != 0x3a2) + "".join(chr(c) for c in range(0x410, 0x430))
UTF8_ANY = UTF8_STABLE + "äöü" + "".join(chr(c) for c in range(0x3b1, 0x3ca)) + "".join(chr(c) for c in range(0x430, 0x450))
LATIN1_STABLE = bytes([c for c in range(0xc0, 0xe0) if c != 0xd7]).decode("latin-1")
LATIN1_ANY = bytes([c for c in range(0xc0, 0x100)]).decode("latin-1")
PREDEF = {"MOMCPU", "MOMCPUNAME", "TRUE", "FALSE", "DATE", "TIME", "VERSION", "NESTMAX", "PACKING", "PADDING", "RELAXED",
          "MACEXP", "LISTON", "CUSTOM", "HAS64", "CONSTPI"}


def hx(b):
    return b.hex() if b else "-"


class SymProg:
    def __init__(self, rng, base):
        r = self.rng = rng
        self.base = base
        self.cpu, self.family = r.choice(TARGETS)
        self.charset = r.choice(["ascii", "ascii", "latin1", "utf8", "utf8", "utf8"])
        self.how = r.choice(["LC_CTYPE", "LC_ALL", "LANG", "-codepage"]) if self.charset != "ascii" else "-"
        self.case_sens = r.random() < 0.4
        self.lower = r.random() < 0.5
        self.radix = 16 if r.random() < 0.6 else r.choice(RADIX_POOL)
        self.share = r.choice(["p", "c", "a", "a"])
        self.width = 0 if r.random() < 0.6 else r.choice([60, 64, 79, 81, 100, 132])
        self.relaxed = r.random() < 0.3
        self.outradix = r.choice([None, None, 2, 8, 16])
        self.syms = []
        self.taken = set()
        self.lines = []
        self.stats = dict(int=0, int_hexletter=0, int_negative=0, float=0, string=0, set=0, label=0, local=0, derived=0,
                          name_multibyte=0, name_long_one_column=0, name_longer_than_line=0, shared=0)

    # ---- names
    def enc(self, s):
        return s.encode("utf-8" if self.charset == "utf8" else "latin-1")

    def listed(self, s):
        """name as the symbol table shows it: unchanged with -U, else ASCII letters in upper case (the characters
        beyond ASCII used without -U have no upper-case counterpart / are upper case already)"""
        if self.case_sens:
            return s
        return "".join(c.upper() if c < "\x80" else c for c in s)

    def name(self):
        r = self.rng
        for _ in range(200):
            x = r.random()
            n = r.randrange(2, 10) if x < 0.55 else r.randrange(10, 30) if x < 0.8 else r.randrange(30, 46) if x < 0.93 else r.randrange(60, 110)
            if self.charset == "ascii":
                extra = ""
            elif self.charset == "latin1":
                extra = LATIN1_ANY if self.case_sens else LATIN1_STABLE
            else:
                extra = UTF8_ANY if self.case_sens else UTF8_STABLE
            dens = r.choice([0.0, 0.1, 0.5, 0.9]) if extra else 0.0
            first = r.choice(FIRST + FIRST.upper())
            if extra and n < 60 and r.random() < 0.3:
                first = r.choice(extra)          # sorts in front of the ASCII names
            s = first + "".join(r.choice(extra) if r.random() < dens else r.choice(ASCII_REST) for _ in range(n - 1))
            key = self.listed(s).upper() if not self.case_sens else s
            if key in self.taken or self.listed(s).upper() in PREDEF:
                continue
            self.taken.add(key)
            if any(c >= "\x80" for c in s) and self.charset == "utf8":
                self.stats["name_multibyte"] += 1
            if 30 <= n < 60:
                self.stats["name_long_one_column"] += 1
            if n >= 60:
                self.stats["name_longer_than_line"] += 1
            return s
        raise RuntimeError("no name")

    # ---- values
    def intval(self):
        r = self.rng
        x = r.random()
        if x < 0.35:
            # leading hex digit is a letter
            nd = r.randrange(0, 16)
            v = r.randrange(10, 16) * 16 ** nd + r.randrange(16 ** nd)
            self.stats["int_hexletter"] += 1
            if v >= 2 ** 63:
                v -= 2 ** 64
        elif x < 0.7:
            v = r.choice(INT_POOL)
        else:
            v = r.randrange(1 << r.choice([4, 8, 12, 16, 20, 32, 48]))
        if v < 0:
            self.stats["int_negative"] += 1
        return v

    def add(self, line):
        self.lines.append(line)

    def build(self):
        r = self.rng
        self.add("\tcpu %s" % self.cpu)
        self.add("\tpage 0%s" % (",%d" % self.width if self.width else ""))
        if self.relaxed:
            self.add("\trelaxed on")
        if self.outradix:
            self.add("\toutradix %d" % self.outradix)
        pc = 0
        nsym = r.randrange(3, 14)
        for _ in range(nsym):
            k = r.random()
            nm = self.name()
            if k < 0.5:
                v = self.intval()
                chg = r.random() < 0.25
                self.add("%s\t%s %d" % (nm, "set" if chg else "equ", v))
                self.syms.append(dict(name=nm, kind="i", value=v, seg="-", chg=chg, sect=None, used=False, shared=False))
                self.stats["int"] += 1
                self.stats["set"] += chg
            elif k < 0.62:
                k2 = r.randrange(0, 11)
                num = r.randrange(1, 1 << r.choice([3, 10, 20]))
                neg = r.random() < 0.3
                self.add("%s\tequ %s%s" % (nm, "-" if neg else "", repr(num / 2 ** k2)))
                self.syms.append(dict(name=nm, kind="f", num=num, k=k2, neg=neg, seg="-", chg=False, sect=None, used=False, shared=False))
                self.stats["float"] += 1
            elif k < 0.72:
                t = "".join(r.choice("abcXYZ019_+-*/.,:#") for _ in range(r.randrange(1, 12)))
                self.add('%s\tequ "%s"' % (nm, t))
                self.syms.append(dict(name=nm, kind="t", text=t, seg="-", chg=False, sect=None, used=False, shared=False))
                self.stats["string"] += 1
            elif k < 0.84:
                pc += r.choice([1, 9, 0x9f, 0xa0, 0x100, 0xa00])
                self.add("\torg %d" % pc)
                self.add("%s:" % nm)
                self.syms.append(dict(name=nm, kind="i", value=pc, seg="C", chg=False, sect=None, used=False, shared=False))
                self.stats["label"] += 1
            elif k < 0.92 and any(s["kind"] == "i" and s["sect"] is None for s in self.syms):
                src = r.choice([s for s in self.syms if s["kind"] == "i" and s["sect"] is None])
                d = r.choice([0, 1, 6, 16])
                self.add("%s\tequ %s+%d" % (nm, src["name"], d))
                v = src["value"] + d
                if v >= 2 ** 63:
                    v -= 2 ** 64
                src["used"] = True
                self.syms.append(dict(name=nm, kind="i", value=v, seg="-", chg=False, sect=None, used=False, shared=False))
                self.stats["derived"] += 1
            else:
                sec = self.name()
                v = self.intval()
                self.add("\tsection %s" % sec)
                self.add("%s\tequ %d" % (nm, v))
                self.add("\tendsection")
                self.syms.append(dict(name=nm, kind="i", value=v, seg="-", chg=False, sect=sec, used=False, shared=False))
                self.stats["local"] += 1
        cands = [s for s in self.syms if s["sect"] is None]
        r.shuffle(cands)
        sh = cands[:r.randrange(1, len(cands) + 1)] if cands else []
        while sh:
            k = r.randrange(1, 5)
            grp, sh = sh[:k], sh[k:]
            for s in grp:
                s["shared"] = True
                s["used"] = True
                self.stats["shared"] += 1
            self.add("\tshared %s" % ",".join(s["name"] for s in grp))
        return self

    def etoken(self, s):
        nm = self.enc(s["name"])
        ln = self.enc(self.listed(s["name"]))
        sect = hx(self.enc(self.listed(s["sect"]))) if s["sect"] else "-"
        if s["kind"] == "i":
            a, b, neg = str(s["value"] % (1 << 64)), 0, 0
        elif s["kind"] == "f":
            a, b, neg = str(s["num"]), s["k"], int(s["neg"])
        else:
            a, b, neg = hx(s["text"].encode("latin-1")), 0, 0
        return "e:%s,%s,%s,%d,%s,%d,%s,%d,%d,%s,%d" % (hx(nm), hx(ln), s["kind"], neg, a, b, s["seg"], s["shared"], s["chg"], sect, s["used"])


def tool(bdir, name, args, cwd, env):
    """run with exactly the environment `env` (common.sh would add the variables of this process, and the python
    interpreter itself sets LC_CTYPE=C.UTF-8 there)"""
    e = dict(env)
    e.setdefault("PATH", os.environ.get("PATH", "/usr/bin:/bin"))
    try:
        r = subprocess.run([os.path.join(bdir, name)] + list(args), cwd=cwd, env=e, timeout=60, stdout=subprocess.PIPE, stderr=subprocess.PIPE)
    except subprocess.TimeoutExpired as ex:
        return "timeout", ex.stdout or b"", ex.stderr or b""
    return r.returncode, r.stdout, r.stderr


def run_syms(bdir, wd, rng, nprog, ok):
    from .c19 import strip_listing, kv_of
    spec_fail, corr_fail, samples = [], [], []
    agg = dict(programs=0, asl_rejected=0, sym_list=0, sym_share=0, sym_included=0, table_cells=0, share_lines_model=0, include_programs=0)
    dist = {}
    distinct = set()
    reqs, metas = [], []

    def bump(k):
        dist[k] = dist.get(k, 0) + 1

    for idx in range(nprog):
        base = "y%d" % idx
        p = SymProg(rng, base).build()
        src = ("\n".join(p.lines) + "\n")
        raw = p.enc(src)
        open(os.path.join(wd, base + ".asm"), "wb").write(raw)
        env = dict(common.tool_env(bdir))
        env["LC_CTYPE"] = "C"
        cs = {"ascii": None, "latin1": "ISO-8859-1", "utf8": rng.choice(["UTF-8", "utf8"])}[p.charset]
        args = ["-q"]
        if p.how in ("LC_CTYPE", "LC_ALL", "LANG"):
            # AS reads the first of LC_CTYPE, LC_ALL, LANG that is set
            for v in ("LC_CTYPE", "LC_ALL", "LANG"):
                env.pop(v, None)
            env[p.how] = "en_US." + cs
            if p.how == "LC_CTYPE":
                env["LANG"] = "C"
            if p.how == "LC_ALL":
                env["LANG"] = "en_US.ISO-8859-15"
        elif p.how == "-codepage":
            args += ["-codepage", {"latin1": "iso8859-1", "utf8": "utf-8"}[p.charset]]
        if p.lower:
            args.append("-h")
        if p.case_sens:
            args.append("-U")
        fmt = {"p": "pascal", "c": "c", "a": ASM_FMT[p.family]}[p.share]
        args += ["-L", "-" + p.share, "-LISTRADIX", str(p.radix), "-olist", base + ".lst", "-shareout", base + ".shr", base + ".asm", "-o", base + ".p"]
        rc, so, se = tool(bdir, "asl", args, wd, env)
        meta = dict(tag="sym:%d" % idx, cpu=p.cpu, int_syntax=p.family, charset=p.charset, charset_via=p.how, radix=p.radix, share=fmt, lower_hex=p.lower,
                    case_sensitive=p.case_sens, page_width=p.width, files={base + ".asm": raw.decode("latin-1")}, encoding="latin-1",
                    args=args, env={k: v for k, v in env.items() if k in ("LC_CTYPE", "LC_ALL", "LANG")})
        agg["programs"] += 1
        try:
            lst = open(os.path.join(wd, base + ".lst"), "rb").read().decode("latin-1")
            shr = open(os.path.join(wd, base + ".shr"), "rb").read().decode("latin-1")
        except OSError as ex:
            rc = "no-output(%s)" % rc
            lst = shr = ""
        if rc != 0:
            agg["asl_rejected"] += 1
            spec_fail.append(dict(why="asl rejected a valid generated program: rc=%s %s" % (rc, (so + se).decode("latin-1")[-300:]), **meta))
            continue
        _src, sym = strip_listing(lst)
        toks = ["r:%d" % p.radix, "h:%d" % p.lower, "u:%d" % (p.charset == "utf8"), "w:%d" % p.width, "f:" + fmt,
                "g:%d" % {"p": 1, "c": 2, "a": 3}[p.share], "i:" + p.family]
        toks += ["y:" + hx(l.encode("latin-1")) for l in sym]
        shl = [l for l in shr.split("\n") if l.strip()]
        toks += ["s:" + hx(l.encode("latin-1")) for l in shl]
        toks += [p.etoken(s) for s in p.syms]
        # ---- an assembler-format share file is read back by a second program on the same target
        if p.share == "a":
            u = ["\tcpu %s" % p.cpu] + (["\trelaxed on"] if p.relaxed else []) + ['\tinclude "%s.shr"' % base]
            uraw = p.enc("\n".join(u) + "\n")
            open(os.path.join(wd, base + "u.asm"), "wb").write(uraw)
            uargs = [a for a in args[:args.index("-L")]] + ["-g", "MAP", base + "u.asm", "-o", base + "u.p"]
            rc2, so2, se2 = tool(bdir, "asl", uargs, wd, env)
            meta["files"][base + "u.asm"] = uraw.decode("latin-1")
            meta["args_include"] = uargs
            agg["include_programs"] += 1
            try:
                mp = open(os.path.join(wd, base + "u.map"), "rb").read().decode("latin-1")
            except OSError:
                mp = ""
            if rc2 != 0 or not mp:
                spec_fail.append(dict(why="a program that includes the assembler-format share file does not assemble (the file does not state the values in the target's syntax): rc=%s %s | share file: %s"
                                      % (rc2, (so2 + se2).decode("latin-1")[-300:], " / ".join(shl[:12])), **meta))
            else:
                toks += ["t:" + hx(l.encode("latin-1")) for l in mp.split("\n") if l.strip()]
        reqs.append(" ".join(toks))
        meta["symtab_head"] = sym[:8]
        meta["share_head"] = shl[:8]
        metas.append((meta, p))
        for k, v in p.stats.items():
            dist[k] = dist.get(k, 0) + int(v)
        bump("charset_%s" % p.charset)
        bump("charset_via_%s" % p.how)
        bump("share_" + fmt)
        bump("syntax_" + p.family)
        bump("lower_hex_%d" % p.lower)
        bump("case_sensitive_%d" % p.case_sens)
        bump("radix_%s" % ("16" if p.radix == 16 else "other"))
        bump("width_%s" % ("default" if not p.width else "set"))
    answers = common.driver("c19s", reqs, timeout=3600) if ok and reqs else []
    for (meta, p), ans in zip(metas, answers):
        kv = kv_of(ans)
        if kv.get("req") != "ok":
            spec_fail.append(dict(why="driver: " + ans[:200], **meta))
            continue
        agg["sym_list"] += int(kv["ntab"])
        agg["sym_share"] += int(kv["nshare"])
        agg["sym_included"] += int(kv["nincl"])
        agg["table_cells"] += int(kv["cells"])
        agg["share_lines_model"] += int(kv["nshare_corr"])
        distinct.add(("sym", p.cpu, p.charset, p.share, p.lower, p.radix, kv["cells"], kv["nshare"]))
        brief = {k: v for k, v in kv.items() if not k.startswith("model_")}
        if len(samples) < 2 and p.charset == "utf8" and int(kv["ntab"]) > 5:
            samples.append(dict(verdict=brief, **{k: meta[k] for k in ("tag", "cpu", "charset", "share", "symtab_head", "share_head")}))
        f = dict(verdict=brief, **meta)
        if kv["spec_tab"] != "ok" or kv["spec_tab_once"] != "ok" or kv["tails"] != "0" or kv["unparsed"] != "0":
            spec_fail.append(dict(why="listing symbol table does not state every symbol exactly once with its value, segment letter and section: values=%s occurrences=%s incomplete_entries=%s unreadable_entries=%s"
                                  % (kv["spec_tab"], kv["spec_tab_once"], kv["tails"], kv["unparsed"]), **f))
        elif kv["corr_entry"] == "ok" and kv["corr_lines"] == "model-undefined":
            # the first entry of the table is wider than the line: PrintSymbolList_AddOut writes Zeilenrest.p_str[-1]
            # (the C code's behaviour is undefined there; the SPEC above has judged the output)
            bump("first_entry_wider_than_line_model_undefined")
        elif kv["corr_entry"] != "ok" or kv["corr_lines"] != "ok":
            corr_fail.append(dict(why="symbol table text differs from the model (PrintSymbolList_PNode / _AddOut): entry=%s lines=%s" % (kv["corr_entry"], kv["corr_lines"]),
                                  model_entry=kv.get("model_entry"), **f))
        if kv["spec_share"] != "ok" or kv["spec_share_once"] != "ok":
            spec_fail.append(dict(why="share file does not state the shared symbol's value in the notation of its format: values=%s occurrences=%s"
                                  % (kv["spec_share"], kv["spec_share_once"]), **f))
        elif kv["corr_share"] != "ok":
            corr_fail.append(dict(why="share file line differs from the model (CodeSHARED / IntLine): " + kv["corr_share"], model_share=kv.get("model_share"), **f))
        if kv["spec_incl"] != "ok":
            spec_fail.append(dict(why="a program that includes the assembler-format share file sees other values: " + kv["spec_incl"], **f))
    return dict(spec_fail=spec_fail, corr_fail=corr_fail, agg=agg, dist=dist, samples=samples, distinct=distinct)
