"""C10, reservation part: the program counter across Intel-style data statements whose elements are smaller (or larger)
than the address unit of the segment they stand in.

Called from c10.run().  A program is a list of labelled `DN/DB/DW/DD/DQ` statements - mostly pure reservations built from loose `?`
and (nested) `n DUP (...)` groups that start and end anywhere inside an address unit, some constant statements as markers in the
code file, a few statements that mix both (must be refused) - interleaved with ORG / RORG / SEGMENT / label-only lines, on targets
with 16-bit units (AVR CODE, KCPSM CODE), 32-bit units (KCPSM3 / Mico8 CODE, reservations only) and byte units (Z80, 8051, 8086 and
the DATA / EEDATA segments of the word-addressed targets, where DN packs two nibbles per byte).  After every statement the program
counter symbol, MOMSEGMENT and the label of the statement are read back through MESSAGE; the code file is read back as cells.

Oracles (driver mode `c10r`, lean/Driver/C10R.lean):
 (B) Model/AddrRes.lean: `CodeLen` of the statement = transcription of intpseudo.c DecodeIntelDx for `Grans[ActPC]` of the current build
     (Model/DataExt.lean: SubCodeFill / MultCodeFill / IncCodeFillBy),
 (C) Spec/AddrRes.lean: the manual's rule - a statement of e elements of b bits occupies ceil(e*b / unit bits) address units, a DUP
     multiplies the element count of its body - with the unit sizes given below from the targets' documentation.
Nothing in this file computes an expected address: `units_hint` only steers the generator away from the end of a segment.
"""
import os
import re
from collections import Counter

from .. import common
from .c09_ext import ser_arg

SEGNAMES = ["NOTHING", "CODE", "DATA", "IDATA", "XDATA", "YDATA", "BITDATA", "IO", "REG", "ROMDATA", "EEDATA", "STRUCT"]

# segs: segment number -> (name, bytes per address unit as documented, highest address used by the generator)
RT = [
    dict(name="avr", cpu="atmega8", key="ATMEGA8", pc="*", ibig=0, sbig=0, consts=True, weight=30,
         segs={1: ("code", 2, 0xf00), 2: ("data", 1, 0x400), 10: ("eedata", 1, 0x1f0)}),
    dict(name="kcpsm", cpu="kcpsm", key="KCPSM", pc="$", ibig=1, sbig=1, consts=True, weight=14,
         segs={1: ("code", 2, 0xf0), 2: ("data", 1, 0x30)}),
    dict(name="kcpsm3", cpu="kcpsm3", key="KCPSM3", pc="$", ibig=1, sbig=1, consts=False, weight=8,
         segs={1: ("code", 4, 0x3e0), 2: ("data", 1, 0x30)}),
    dict(name="mico8", cpu="mico8_05", key="MICO8_05", pc="$", ibig=1, sbig=1, consts=False, weight=5,
         segs={1: ("code", 4, 0x1e0), 2: ("data", 1, 0x18)}),
    dict(name="z80", cpu="z80", key="Z80", pc="$", ibig=0, sbig=0, consts=True, weight=18,
         segs={1: ("code", 1, 0xf000)}),
    dict(name="8051", cpu="8051", key="8051", pc="$", ibig=0, sbig=0, consts=True, weight=8,
         segs={1: ("code", 1, 0xf000), 2: ("data", 1, 0x70), 4: ("xdata", 1, 0xf000)}),
    dict(name="8086", cpu="8086", key="8086", pc="$", ibig=0, sbig=0, consts=True, weight=8,
         segs={1: ("code", 1, 0xf000), 2: ("data", 1, 0xf000)}),
]

# (mnemonic, bits)
KINDS = [("dn", 4), ("db", 8), ("dw", 16), ("dd", 32), ("dq", 64)]
FLT = {4: "-", 8: "-", 16: "h", 32: "s", 64: "d"}

Q = ("q",)


def elems_hint(args):
    n = 0
    for a in args:
        n += max(0, a[1]) * elems_hint(a[2]) if a[0] == "d" else 1
    return n


def has_zero_dup(args):
    return any(a[0] == "d" and (a[1] == 0 or has_zero_dup(a[2])) for a in args)


def units_hint(g, bits, args):
    """upper estimate of the units a statement may take - steering only (keeps the programs inside the segments)"""
    return (elems_hint(args) * bits + 8 * g - 1) // (8 * g) + 1


def src_arg(a):
    if a[0] == "q":
        return "?"
    if a[0] == "i":
        return str(a[1])
    return "%d dup (%s)" % (a[1], ",".join(src_arg(x) for x in a[2]))


def gen_res_arg(rng, depth, zero_ok, stats):
    """one argument of a reservation: `?` or a DUP group of reservations"""
    if depth < 3 and rng.random() < (0.5 if depth == 0 else 0.22):
        cnt = rng.choice([1, 2, 2, 3, 3, 3, 4, 5, 5, 6, 7, 9])
        if zero_ok and rng.random() < 0.04:
            cnt = 0
            stats["dup_count_0"] += 1
        stats["dup_depth_%d" % (depth + 1)] += 1
        body = [gen_res_arg(rng, depth + 1, zero_ok, stats) for _ in range(rng.choice([1, 1, 1, 2, 2, 3]))]
        return ("d", cnt, body)
    return Q


def gen_res_args(rng, stats):
    """argument list of a pure reservation: loose `?` before / between / after DUP groups"""
    shape = rng.random()
    args = []
    if shape < 0.45:
        # loose placeholders, then a group, maybe more
        lead = rng.choice([1, 1, 1, 2, 3, 3, 5])
        args = [Q] * lead
        for _ in range(rng.choice([1, 1, 1, 2])):
            a = gen_res_arg(rng, 0, True, stats)
            if a[0] != "d":
                a = ("d", rng.choice([2, 3, 3, 4, 5]), [Q] * rng.choice([1, 1, 2, 3]))
                stats["dup_depth_1"] += 1
            args.append(a)
            args += [Q] * rng.choice([0, 0, 1, 2])
        stats["shape:loose-then-group"] += 1
    elif shape < 0.6:
        args = [gen_res_arg(rng, 0, False, stats) for _ in range(rng.choice([1, 2, 2, 3]))]
        stats["shape:any"] += 1
    elif shape < 0.75:
        args = [("d", rng.choice([1, 2, 3, 4, 5, 8]), [Q] * rng.choice([1, 1, 2, 3]))]
        if rng.random() < 0.5:
            args.append(("d", rng.choice([2, 3, 5]), [Q] * rng.choice([1, 2, 3])))
        stats["shape:group-first"] += 1
    elif shape < 0.88:
        args = [Q] * rng.choice([1, 1, 2, 3, 4, 5, 7])
        stats["shape:loose-only"] += 1
    else:
        # a group nested in a group that starts inside a unit
        inner = ("d", rng.choice([2, 3, 4]), [Q] * rng.choice([1, 2, 3]))
        body = [Q] * rng.choice([1, 2, 3]) + [inner] + [Q] * rng.choice([0, 1])
        args = [Q] * rng.choice([0, 1, 1, 2, 3]) + [("d", rng.choice([2, 3, 4]), body)]
        stats["dup_depth_1"] += 1
        stats["dup_depth_2"] += 1
        stats["shape:nested"] += 1
    return args


def int_leaf(rng, bits):
    if bits == 4:
        return ("i", rng.randrange(0, 16))
    if bits == 64:
        return ("i", rng.randrange(0, 1 << 31))
    return ("i", rng.randrange(0, 1 << bits))


def gen_const_args(rng, bits, stats):
    args = []
    for _ in range(rng.choice([1, 1, 2, 3, 4])):
        if rng.random() < 0.3:
            stats["const_dup"] += 1
            args.append(("d", rng.choice([1, 2, 3]), [int_leaf(rng, bits) for _ in range(rng.choice([1, 2, 3]))]))
        else:
            args.append(int_leaf(rng, bits))
    return args


class ResGen:
    def __init__(self, rng, tgt, stats):
        self.rng = rng
        self.tgt = tgt
        self.stats = stats
        self.stmts = []           # (label | None, op tuple)
        self.seg = 1
        self.pc = {}              # per segment: upper estimate of the counter (steering only)
        self.lo = {}              # per segment: lower bound of the counter (a negative RORG must not go below 0)
        self.next_id = 1
        self.n = rng.randrange(5, 26)

    def lab(self, p):
        if self.rng.random() < p:
            self.next_id += 1
            return self.next_id - 1
        return None

    def org(self, lab=None, vmax=None):
        name, g, hi = self.tgt["segs"][self.seg]
        v = self.rng.choice([0, 1, 2, 7, 16, self.rng.randrange(0, max(1, hi // 2)), self.rng.randrange(0, max(1, hi // 2))])
        if vmax is not None:
            v = min(v, max(0, vmax))
        self.stmts.append((lab, ("ORG", v)))
        self.pc[self.seg] = v
        self.lo[self.seg] = v

    def pick_kind(self, g):
        rng = self.rng
        if g == 1:
            return rng.choice([KINDS[0]] * 7 + [KINDS[1]] * 2 + KINDS[2:])
        if g == 2:
            return rng.choice([KINDS[0]] * 4 + [KINDS[1]] * 6 + [KINDS[2]] * 2 + KINDS[3:])
        return rng.choice([KINDS[0]] * 3 + [KINDS[1]] * 4 + [KINDS[2]] * 3 + KINDS[3:])

    def data(self):
        rng = self.rng
        name, g, hi = self.tgt["segs"][self.seg]
        op, bits = self.pick_kind(g)
        r = rng.random()
        const_ok = self.tgt["consts"] and (g <= 2) and self.seg in (1, 10)
        if r < 0.035:
            # a constant next to a reservation: refused - unless every placeholder stands in the body of a `0 dup`, which is never
            # looked at and stands for nothing (Spec/AddrRes.lean hasQ / hasC): then the statement is a constant statement
            # (only where constant statements are generated at all: `const_ok`)
            args = gen_res_args(rng, self.stats)
            while has_zero_dup(args) and not const_ok:
                args = gen_res_args(rng, self.stats)
            args.insert(rng.randrange(0, len(args) + 1), int_leaf(rng, bits))
            kind = "mixed"
            if has_zero_dup(args):
                self.stats["mixed_with_zero_dup"] += 1
        elif r < 0.2 and const_ok:
            args = gen_const_args(rng, bits, self.stats)
            kind = "const"
        else:
            args = gen_res_args(rng, self.stats)
            kind = "res"
        u = units_hint(g, bits, args)
        if u > min(200, hi // 2) or (kind == "const" and elems_hint(args) * bits > 8 * 200):
            return self.data()
        if self.pc.get(self.seg, 0) + u > hi:
            self.org(None, hi - u)
        self.stmts.append((self.lab(0.75), ("IX", op, bits, args, kind)))
        self.stats["stmt:%s" % kind] += 1
        self.stats["%s@unit%d" % (op, 8 * g)] += 1
        if kind != "mixed":
            self.pc[self.seg] = self.pc.get(self.seg, 0) + u

    def one(self):
        rng = self.rng
        r = rng.random()
        segs = self.tgt["segs"]
        if r < 0.66:
            self.data()
        elif r < 0.73:
            self.org(self.lab(0.3))
        elif r < 0.79:
            d = rng.choice([1, 1, 2, 3, 5, 8, -1, -2])
            if self.lo.get(self.seg, 0) + d < 0 or self.pc.get(self.seg, 0) + d > segs[self.seg][2]:
                d = 1
            self.stmts.append((self.lab(0.3), ("RORG", d)))
            self.pc[self.seg] = self.pc.get(self.seg, 0) + d
            self.lo[self.seg] = self.lo.get(self.seg, 0) + d
        elif r < 0.90 and len(segs) > 1:
            s = rng.choice([x for x in segs if x != self.seg])
            self.stmts.append((None, ("SEG", s)))
            self.seg = s
            if s not in self.pc:
                self.org()
        else:
            self.next_id += 1
            self.stmts.append((self.next_id - 1, ("NOP",)))

    def build(self):
        self.org()
        while len(self.stmts) < self.n:
            self.one()
        self.next_id += 1
        self.stmts.append((self.next_id - 1, ("NOP",)))
        return self


class FixedRes:
    def __init__(self, tgt, stmts):
        self.tgt = tgt
        self.stmts = stmts
        self.fixed = True


def D(n, *body):
    return ("d", n, list(body))


def hand_programs():
    """regression inputs: one representative per class (every statement of every class is also produced by the generator)"""
    T = {t["name"]: t for t in RT}
    out = []
    out.append(FixedRes(T["avr"], [
        (None, ("ORG", 16)),
        (1, ("IX", "db", 8, [D(2, Q), D(2, Q)], "res")),
        (2, ("IX", "db", 8, [Q, D(3, Q)], "res")),
        (3, ("IX", "db", 8, [Q, Q, Q, D(2, Q, Q, Q), Q], "res")),
        (4, ("IX", "dn", 4, [Q, Q, Q, D(5, Q)], "res")),
        (5, ("IX", "db", 8, [D(4, Q)], "res")),
        (6, ("IX", "dw", 16, [Q, D(3, Q, Q)], "res")),
        (None, ("SEG", 10)), (None, ("ORG", 5)),
        (7, ("IX", "dn", 4, [Q, D(3, Q), Q], "res")),
        (8, ("IX", "db", 8, [("i", 1), ("i", 2), ("i", 3)], "const")),
        (None, ("SEG", 1)),
        (9, ("IX", "db", 8, [("i", 165)], "const")),
        (10, ("NOP",))]))
    out.append(FixedRes(T["z80"], [
        (None, ("ORG", 16)),
        (1, ("IX", "db", 8, [Q, D(3, Q)], "res")),
        (2, ("IX", "dn", 4, [D(2, Q), D(2, Q)], "res")),
        (3, ("IX", "dn", 4, [Q, D(3, Q)], "res")),
        (4, ("IX", "dn", 4, [Q, D(3, Q, Q, Q)], "res")),
        (5, ("IX", "dn", 4, [Q, D(2, Q, D(3, Q, Q), Q)], "res")),
        (6, ("IX", "db", 8, [("i", 165)], "const")),
        (7, ("NOP",))]))
    out.append(FixedRes(T["kcpsm"], [
        (None, ("ORG", 8)),
        (1, ("IX", "db", 8, [Q, D(5, Q)], "res")),
        (2, ("IX", "dn", 4, [Q, Q, D(3, Q, Q, Q), Q], "res")),
        (3, ("IX", "db", 8, [("i", 1), D(2, ("i", 2), ("i", 3))], "const")),
        (4, ("NOP",))]))
    out.append(FixedRes(T["kcpsm3"], [
        (None, ("ORG", 8)),
        (1, ("IX", "db", 8, [Q, D(5, Q)], "res")),
        (2, ("IX", "dn", 4, [Q, Q, Q, D(3, Q, Q, Q), Q], "res")),
        (3, ("IX", "dw", 16, [Q, D(2, Q)], "res")),
        (4, ("IX", "dq", 64, [Q, D(2, Q)], "res")),
        (5, ("NOP",))]))
    return out


def render(g, two_pass):
    t = g.tgt
    lines = ["\tcpu %s" % t["cpu"], "\toutradix 10"]
    if two_pass:
        lines.append("Q_FWD\tequ\tQ_END")
    lmap = {}
    for i, (lab, op) in enumerate(g.stmts):
        left = "N%d:" % lab if lab is not None else ""
        if op[0] == "IX":
            body = "%s\t%s" % (op[1], ",".join(src_arg(a) for a in op[3]))
        elif op[0] == "ORG":
            body = "org\t%d" % op[1]
        elif op[0] == "RORG":
            body = "rorg\t%d" % op[1]
        elif op[0] == "SEG":
            body = "segment\t%s" % t["segs"][op[1]][0]
        else:
            body = ""
        lines.append("%s\t%s" % (left, body))
        lmap[len(lines)] = (i, "s")
        lines.append("\tmessage \"@%d \\{%s} \\{MOMSEGMENT} %s\"" % (i, t["pc"], ("\\{N%d}" % lab) if lab is not None else "-"))
        lmap[len(lines)] = (i, "m")
    if two_pass:
        lines.append("Q_END:")
    return "\n".join(lines) + "\n", lmap


MSG_RE = re.compile(r"^@(\d+) (\d+) (\S+) (\S+)\s*$")
ERR_RE = re.compile(r"^> > > ([^:(]+)(?:\((\d+)\))?(?::\d+)?: (error|fatal error) #(\d+)")


def observe(bdir, wd, idx, src, lmap, n):
    f = os.path.join(wd, "r%d.asm" % idx)
    pf = os.path.join(wd, "r%d.p" % idx)
    open(f, "w").write(src)
    rc, so, se = common.run_tool(bdir, "asl", ["-q", "-n", f, "-o", pf], wd, timeout=20, env={"ASL_VERIF_MAX_PASSES": "8"})
    sig = -rc if isinstance(rc, int) and rc < 0 else (99 if rc in ("timeout", 97) else 0)
    obs = {}
    for line in so.decode(errors="replace").split("\n"):
        m = MSG_RE.match(line.strip())
        if m:
            seg = SEGNAMES.index(m.group(3)) if m.group(3) in SEGNAMES else 99
            obs[int(m.group(1))] = (m.group(2), seg, m.group(4))
    errs, end_errs, msg_errs = {}, [], []
    for line in se.decode(errors="replace").split("\n"):
        m = ERR_RE.match(line.strip())
        if m:
            if m.group(2) is None:
                end_errs.append(m.group(4))
            else:
                i, kind = lmap.get(int(m.group(2)), (None, None))
                if kind == "s":
                    errs.setdefault(i, []).append(m.group(4))
                else:
                    msg_errs.append((int(m.group(2)), m.group(4)))
    toks = []
    for i in range(n):
        if i in obs:
            d, s, v = obs[i]
            toks.append("%s,%d,%s,%s" % (d, s, v, ";".join(errs.get(i, [])) or "-"))
        else:
            toks.append("x")
    pfhex = "-"
    if os.path.exists(pf):
        pfhex = open(pf, "rb").read().hex() or "-"
        os.unlink(pf)
    os.unlink(f)
    tail = "end=%s sig=%d p=%s" % (";".join(end_errs) or "-", sig, pfhex)
    return toks, tail, dict(rc=rc, msg_errs=msg_errs, stderr=se.decode(errors="replace")[-600:])


def request_head(g):
    t = g.tgt
    toks = [t["key"], str(t["ibig"]), str(t["sbig"]), "1", str(len(t["segs"]))]
    toks += ["%d:%d" % (s, v[1]) for s, v in sorted(t["segs"].items())]
    toks.append(str(len(g.stmts)))
    for lab, op in g.stmts:
        toks.append("-" if lab is None else str(lab))
        if op[0] == "IX":
            toks += ["IX", str(op[2]), "1", FLT[op[2]], str(len(op[3]))]
            for a in op[3]:
                toks += ser_arg(a)
        elif op[0] == "NOP":
            toks.append("NOP")
        else:
            toks += [op[0], str(op[1])]
    return " ".join(toks)


def run_part(args, bdir, wd, ok):
    rng = common.rng_for(args.seed, "C10R")
    thorough = args.tier != "quick"
    n_prog = 10000 if thorough else 700
    stats, dist = Counter(), Counter()
    spec_fail, corr_fail, samples, problems = [], [], [], []
    distinct = set()
    progs = hand_programs()
    weights = [t["weight"] for t in RT]
    for _ in range(n_prog):
        progs.append(ResGen(rng, rng.choices(RT, weights)[0], stats).build())
    reqs, metas = [], []
    for idx, g in enumerate(progs if ok else []):
        src, lmap = render(g, two_pass=(idx % 2 == 1))
        toks, tail, info = observe(bdir, wd, idx, src, lmap, len(g.stmts))
        reqs.append("%s %s %s" % (request_head(g), " ".join(toks), tail))
        metas.append((g, src, info))
    answers = common.driver("c10r", reqs, timeout=3600) if reqs else []
    agg = Counter()
    for (g, src, info), req, ans in zip(metas, reqs, answers):
        kv = dict(x.split("=", 1) for x in ans.split() if "=" in x)
        t = g.tgt
        if "model" not in kv:
            problems.append("driver (c10r): %s for %s" % (ans, req[:200]))
            continue
        agg["programs"] += 1
        agg["statements"] += len(g.stmts)
        agg["spec_checked_statements"] += int(kv.get("checked", 0))
        agg["reservation_statements_judged_by_spec"] += int(kv.get("res", 0))
        agg["of_these_on_elements_smaller_than_the_unit"] += int(kv.get("packed", 0))
        agg["of_these_with_a_dup_group_starting_inside_a_unit"] += int(kv.get("mid", 0))
        dist["r-target:" + t["name"]] += 1
        dist["r-stop:" + kv.get("stop", "?").split("@")[0]] += 1
        if kv.get("cells") == "eq":
            agg["code_files_compared_with_spec_cells"] += 1
        if int(kv.get("mid", 0)) > 0:
            distinct.add(req.split(" end=")[0])
        if len(samples) < 3 and int(kv.get("mid", 0)) >= 2 and kv.get("spec") == "ok":
            samples.append(dict(target=t["name"], source=src[:1500], verdict=ans))
        short_req = req if len(req) < 60000 else req[:60000]
        tag = "reservations:" + t["name"]
        if kv.get("spec") != "ok" or kv.get("cells") == "ne":
            why = kv.get("swhy") if kv.get("spec") != "ok" else "cells-of-the-code-file-differ-from-the-spec's-addresses"
            spec_fail.append(dict(tag=tag, why="element rule of the manual (Spec/AddrRes.lean) vs real asl: " + str(why), sig=None,
                                  source=src, request=short_req, answer=ans, mode="c10r"))
        if kv.get("model") != "eq":
            corr_fail.append(dict(tag=tag, why="Lean model of DecodeIntelDx/WriteCode (Model/AddrRes.lean) vs real asl: %s" % kv.get("mwhy"),
                                  source=src, request=short_req, answer=ans, asl=info, mode="c10r"))
    return dict(spec_fail=spec_fail, corr_fail=corr_fail, evaluations=agg["programs"], distinct=distinct, dist=dist, stats=stats,
                samples=samples, problems=problems, agg=agg)
