"""C03, exploration half: the assembler under its command-line options, and the statements whose effect shows only in
the side outputs written at the END of a run (listing with symbol table / macro / function / structure / section /
usage / cross-reference lists, macro output, macro-processor output, debug map, share file, error file).

Four generator classes (all random, all labelled exploration; oracle = documented exit status 0/2/3, never a signal /
sanitizer report / time-out):

 * `optset(rng)`       random option sets: listing family (-L -l -C -s -u -t -A -h -listradix -splitbyte -olist), side-output
                       family (-P -M -g [MAP|ATMEL|NOICE] -c -p -a -shareout -E), output-disabling / unusual ones (+G, -o into
                       a missing directory / onto a directory, -olist / -shareout / -E into a missing directory, -w -x -n -r
                       -U -Werror -maxerrors -gnuerrors -compmode -relaxed).  Every path lies inside the case's own scratch
                       directory (`@D@`), never a device node.
 * `LIST_PSEUDO`       grammar templates of the listing-control statements (PAGE / PAGESIZE with 0,1,2,4,5,255,256 for both
                       arguments, NEWPAGE, TITLE / PRTINIT / PRTEXIT with strings around the line-buffer sizes, LISTING modes,
                       MACEXP / MACEXP_DFT / MACEXP_OVR with many arguments, OUTRADIX at its bounds) in front of a body that
                       fills every list printed at the end, and `gen_listing_programs`: whole programs with several of them.
 * `gen_val_recursion` recursion through the built-in functions that evaluate text (VAL of a string symbol that calls VAL /
                       a user function / a symbol holding such a string; cycles of 1..4 string symbols; FUNCTION bodies
                       calling VAL; finite but deep chains as controls).
 * `gen_output_programs` statement classes that write code (BINCLUDE of files beyond the 512-byte code buffer, DC/DS/DUP/[n]
                       repetitions beyond it, SAVE/RESTORE, PHASE, SEGMENT, SHARED) for the output-disabling option sets.

Corpus convention: a line `; asl-options: <options>` among the first lines of a `corpus/C03/*.asm` file makes the corpus
runner assemble the file with these options as well (shell-like splitting; `@D@` = the scratch directory).
"""
import re
import shlex

OPT_HEADER_RE = re.compile(rb"(?im)^\s*;\s*asl-options:[ \t]*(.*?)\s*$")


def corpus_options(src):
    """option list of the `; asl-options:` header comment (first 10 lines), or None"""
    head = b"\n".join(src.split(b"\n")[:10])
    m = OPT_HEADER_RE.search(head)
    if not m:
        return None
    try:
        return shlex.split(m.group(1).decode("latin-1"))
    except ValueError:
        return None


# ---------------------------------------------------------------------------------------------------------------------
# option sets

LIST_FLAGS = ["-C", "-s", "-u", "-A", "-h", "-P", "-M", "-I", "-x", "-n", "-w", "-c", "-p", "-a"]
RARE_FLAGS = ["-U", "-r", "-Werror", "-gnuerrors", "-compmode", "-relaxed", "-x -x", "-Y", "-warnranges", "-supmode"]
LISTMASKS = ["0", "1", "2", "4", "8", "16", "32", "64", "128", "255", "127", "254", "256"]
RADIXES = ["2", "8", "10", "16", "3", "36"]
# option arguments asl refuses at start-up (documented status 4, "parameter error"); rare, the source is not read then
INVALID = [["-listradix", "0"], ["-listradix", "1"], ["-listradix", "37"], ["-splitbyte", "xx"], ["-t", "-1"], ["-noicemask", "-1"],
           ["-noicemask", "65535"], ["-maxerrors", "-1"], ["-D", "="], ["-g", "foo"], ["-cpu", "nosuchcpu"], ["-alias", "a=b=c"]]


def optset(rng, family=None):
    """one random option set (list of argv tokens; `@D@` stands for the case directory)"""
    fam = family or rng.choice(["list", "list", "plainlist", "side", "nocode", "paths", "mixed"])
    o = []
    if fam == "plainlist":
        # a listing and at most list-extending switches: nothing that can end the run before the lists are printed
        o = [rng.choice(["-L", "-L", "-l", "-L -l"])] + rng.sample(["-C", "-s", "-u", "-A", "-h", "-P", "-M", "-x", "-n"], rng.choice([0, 0, 1, 3]))
        out = []
        for t in o:
            out += t.split(" ")
        return out
    if fam in ("list", "mixed") or rng.random() < 0.35:
        o += [rng.choice(["-L", "-L", "-L", "-l", "-L -l"])]
        if rng.random() < 0.25:
            o += ["-t", rng.choice(LISTMASKS)]
        if rng.random() < 0.25:
            o += ["-listradix", rng.choice(RADIXES)]
        if rng.random() < 0.2:
            o += ["-splitbyte"] + rng.choice([[], ["."], [":"]])
        if rng.random() < 0.2:
            o += ["-olist", rng.choice(["@D@/other.lst", "@D@/other.lst", "@D@/nodir/x.lst", "@D@"])]
    k = rng.choice([0, 1, 2, 3, 5]) if fam != "side" else rng.choice([2, 3, 5, 8])
    o += rng.sample(LIST_FLAGS, min(k, len(LIST_FLAGS)))
    if fam in ("side", "mixed") or rng.random() < 0.2:
        if rng.random() < 0.6:
            o += ["-g"] + rng.choice([[], ["MAP"], ["ATMEL"], ["NOICE"], ["map"], ["NOICE", "-noicemask", rng.choice(["0", "1", "255", "2", "127"])]])
        if rng.random() < 0.4:
            o += ["-shareout", rng.choice(["@D@/sh.out", "@D@/nodir/sh.out", "@D@"])] + rng.choice([[], ["-c"], ["-p"], ["-a"], ["-c", "-p", "-a"]])
        if rng.random() < 0.4:
            o += ["-E"] + rng.choice([[], ["@D@/err.log"], ["@D@/nodir/err.log"], ["!1"], ["!2"], ["@D@"]])
    if fam in ("nocode", "mixed"):
        o += [rng.choice(["+G", "+G", "+G", "-G"])]
    if fam == "paths" or (fam == "mixed" and rng.random() < 0.5):
        o += ["-o", rng.choice(["@D@/nodir/t.p", "@D@/nodir/sub/t.p", "@D@", "@D@/t.asm.p", "@D@/" + "n" * 250 + ".p"])]
        if rng.random() < 0.5:
            o += ["-E", rng.choice(["@D@/err.log", "@D@/nodir/err.log"])]
    if rng.random() < 0.25:
        o += [rng.choice(RARE_FLAGS)]
    if rng.random() < 0.1:
        o += ["-maxerrors", rng.choice(["0", "1", "2", "100"])]
    if rng.random() < 0.1:
        o += ["-D", rng.choice(["a", "a=1", "a=1,b=2", "lbl=5", "x=\"s\"", "a="])]
    if rng.random() < 0.05:
        o += rng.choice(INVALID)
    out = []
    for t in o:
        out += t.split(" ") if t.startswith("-") and " " in t else [t]
    return out


# ---------------------------------------------------------------------------------------------------------------------
# listing-control statements

PAGEV = ["0", "1", "2", "3", "4", "5", "6", "255", "256", "60", "-1", "65536", "undefd", "1.5", '"a"']       # statement grammar: second runs
PAGEL = ["0", "1", "2", "4", "5", "6", "60", "255", "256", "-1", "undefd"]                                      # page length (lines)
PAGEW = ["0", "1", "2", "3", "4", "5", "6", "9", "80", "255", "256", "-1", "1.5"]                               # page width (columns)
NEWPV = ["", "0", "1", "2", "3", "4", "5", "-1", "256", "undefd"]
LMODES = ["on", "off", "noskipped", "purecode", "0", "1", "2", "3", "", "foo", "on,off", '"on"']
MEXP = ["on", "off", "all", "noall", "if", "noif", "macro", "nomacro", "rest", "norest", "foo", "", "all,noall", "if,if,if"]
RADV = ["1", "2", "3", "8", "10", "16", "35", "36", "37", "0", "-1", "256"]


def _lstr(n, ch="t"):
    return '"' + ch * n + '"'


LSTRS = [_lstr(n) for n in (0, 1, 4, 5, 79, 80, 132, 200, 253, 254, 255, 256, 300, 1000)] + ['"\\e[1m"', '"\\x0c"', '"\\0"', "'ab'", "abc", '"%s%n"', '"\\{1}"']

# a body that puts something into every list asl prints behind the source lines (symbols with short / long names and
# integer / float / string values, a macro, a function, a structure, nested sections, a code page, several segments)
LIST_BODY = ("start:\tnop\nv_int\tequ 1234\nv_flt\tequ 1.5\nv_str\tequ \"string value\"\n" + "l" * 40 + "\tequ 2\n"
             "mac\tmacro p\n\tdb p\n\tendm\n\tmac 1\nfun\tfunction x,x+1\n\tdb fun(1)\nst\tstruct\nf1\tds 1\nst\tendstruct\n"
             "\tsection s1\nloc:\tnop\n\tsection s2\nloc:\tnop\n\tendsection\n\tendsection\n"
             "\tcodepage cp1\n\tcharset 'a','b'\n\tcodepage standard\n"
             "\tdb " + ",".join(["1"] * 40) + "\n; " + "c" * 300 + "\n")
# the same with a second segment in use (targets that have one: the 8051 templates)
LIST_BODY_SEG = LIST_BODY + "\tsegment data\n\torg 10\nd1:\tds 4\n\tsegment code\n\tnop\n"

# a body without data statements (any target)
NEUTRAL_BODY = ("start:\tnop\nv_int\tequ 1234\nv_flt\tequ 1.5\nv_str\tequ \"string value\"\n" + "l" * 40 + "\tequ 2\nmac\tmacro\n\tnop\n\tendm\n\tmac\n"
                "fun\tfunction x,x+1\nv2\tequ fun(1)\n\tsection s1\nloc:\tnop\n\tsection s2\nloc:\tnop\n\tendsection\n\tendsection\n; " + "c" * 300 + "\n")
MOPTS = ["expand", "noexpand", "expif", "noexpif", "expmacro", "noexpmacro", "exprest", "noexprest", "export", "noexport", "globalsymbols", "intlabel", "global", "on", ""]

# (name, template, slots) in the format of c03.PSEUDO; slots: v,w = PAGEV ; q = NEWPV ; m = LMODES ; e = MEXP ; r = RADV ; t = LSTRS
LIST_PSEUDO = [
    ("L-PAGE", "\tpage {v},{w}\n" + LIST_BODY, "vw", "z80"),
    ("L-PAGE-seg", "\tpage {v},{w}\n" + LIST_BODY_SEG, "vw", "8051"),
    ("L-PAGE1", "\tpage {v}\n" + LIST_BODY, "v", "z80"),
    ("L-PAGESIZE", "\tpagesize {v},{w}\n" + NEUTRAL_BODY, "vw", "sx20"),      # PAGE is a machine instruction there
    ("L-PAGESIZE2", "\tpagesize {v},{w}\n" + NEUTRAL_BODY + "\tpagesize {w}\n", "vw", "msm5055"),
    ("L-PAGE-late", LIST_BODY + "\tpage {v},{w}\n", "vw", "z80"),
    ("L-PAGE-twice", "\tpage {v},{w}\n\tnop\n\tpage {w},{v}\n" + LIST_BODY, "vw", "z80"),
    ("L-NEWPAGE", "\tnewpage {q}\n" + LIST_BODY + "\tnewpage {q}\n\tnop\n", "q", "z80"),
    ("L-NEWPAGE-many", "\tpage 5,{w}\n" + "".join("\tnewpage %d\n\tnop\n" % (i % 6) for i in range(14)) + "\tnewpage {q}\n", "wq", "z80"),
    ("L-TITLE", "\ttitle {t}\n\tpage {v},{w}\n" + LIST_BODY + "\tnewpage\n\ttitle {t}\n\tnop\n", "tvw", "z80"),
    ("L-PRTINIT", "\tprtinit {t}\n\tprtexit {t}\n" + LIST_BODY, "t", "z80"),
    ("L-PRTEXIT", "\tprtexit {t}\n\tpage {v},{w}\n" + LIST_BODY_SEG, "tvw", "8051"),
    ("L-LISTING", "\tlisting {m}\n" + LIST_BODY + "\tlisting on\n\tnop\n\tlisting {m}\n\tif 0\n\tnop\n\telse\n\tnop\n\tendif\n", "m", "z80"),
    ("L-MACEXP", "\tmacexp {e}\n" + LIST_BODY + "\tmacexp_dft {e},{e},{e},{e},{e},{e},{e},{e}\n\tmac 2\n\tmacexp_ovr {e},{e},{e}\n\tmac 3\n", "e", "z80"),
    ("L-MACEXP-def", "m2\tmacro {{{x}}},p\n\tif p\n\tdb p\n\tendif\n\tendm\n\tm2 1\n\tm2 0\nm3\tmacro p,{{{x}}},{{{x}}}\n\tdb p\n\tendm\n\tm3 1\n" + LIST_BODY, "x", "z80"),
    ("L-OUTRADIX", "\toutradix {r}\n\tmessage \"\\{{v_int}} \\{{-v_int}}\"\n" + LIST_BODY, "r", "z80"),
    ("L-LONGSYM", "\tpage {v},{w}\n" + "".join("%s%d\tequ %d\n" % ("s" * n, n, n) for n in (1, 7, 8, 15, 16, 31, 32, 63, 64, 120, 250)) + "\tnop\n", "vw", "z80"),
    ("L-LONGLINE", "\tpage {v},{w}\n\tdb " + ",".join(["55h"] * 200) + "\t; " + "k" * 200 + "\nx:\tnop\n", "vw", "z80"),
    ("L-SHARED", "\tpage {v},{w}\nx\tequ 1\ny\tequ 1.5\nz\tequ \"s\"\n\tshared x,y,z,undefd\n\tshared\n\tnop\n", "vw", "z80"),
    ("L-WIDE", "\tpage {v},{w}\n\tdc.l [40]$12345678\nw:\tdc.w 1\n\tds.b 3\n\talign 4\n", "vw", "68000"),
]
LIST_POOLS = dict(x=MOPTS, v=PAGEL, w=PAGEW, q=NEWPV, m=LMODES, e=MEXP, r=RADV, t=LSTRS)


def fill(tmpl, slots, pick):
    out = tmpl.replace("{{", "\x01").replace("}}}", "}\x02").replace("}}", "\x02")
    d = {}
    for k in slots:
        d[k] = pick(k, LIST_POOLS[k])
        out = out.replace("{" + k + "}", d[k])
    return out.replace("\x01", "{").replace("\x02", "}"), d


def gen_listing_grammar(rng, tier):
    """every template with every value of each of its pools (the pools are walked round-robin from a random offset per slot, so the
    pairs differ from run to run); the option set always asks for a listing and mostly for nothing that ends the run early"""
    cases = []
    for name, tmpl, slots, cpu in LIST_PSEUDO:
        seen = set()
        per = max(len(LIST_POOLS[k]) for k in slots) * (1 if tier == "quick" else 3)
        offs = {k: rng.randrange(len(LIST_POOLS[k])) for k in slots}
        for j in range(per):
            if j and j % max(len(LIST_POOLS[k]) for k in slots) == 0:
                offs = {k: rng.randrange(len(LIST_POOLS[k])) for k in slots}
            body, d = fill(tmpl, slots, lambda k, pool: pool[(offs[k] + j) % len(pool)])
            if body in seen:
                continue
            seen.add(body)
            src = "\tcpu %s\n%s" % (cpu, body)
            cases.append(dict(kind="asl", cls="listing", op=name, src=src.encode("latin-1"), tag="listing:%s:%d" % (name, j), args=d,
                              opts=optset(rng, "plainlist" if rng.random() < 0.7 else "list")))
    return cases


CTRL = [lambda r: "\tpage %s,%s" % (r.choice(PAGEL), r.choice(PAGEW)), lambda r: "\tpage %s,%s" % (r.choice(PAGEL[:9]), r.choice(PAGEW[:11])), lambda r: "\tpage %s" % r.choice(PAGEL),
        lambda r: "\tnewpage %s" % r.choice(NEWPV), lambda r: "\ttitle %s" % r.choice(LSTRS), lambda r: "\tprtinit %s" % r.choice(LSTRS),
        lambda r: "\tprtexit %s" % r.choice(LSTRS), lambda r: "\tlisting %s" % r.choice(LMODES), lambda r: "\tmacexp %s" % ",".join(r.choice(MEXP) for _ in range(r.choice([1, 1, 2, 6]))),
        lambda r: "\tmacexp_dft %s" % r.choice(MEXP), lambda r: "\tmacexp_ovr %s" % r.choice(MEXP), lambda r: "\toutradix %s" % r.choice(RADV),
        lambda r: "\tradix %s" % r.choice(["2", "8", "10", "16", "36"])]
BODY = [lambda r, i: "l%d%s:\tnop" % (i, "n" * r.choice([0, 0, 3, 20, 70, 200])), lambda r, i: "e%d\tequ %s" % (i, r.choice(["1", "-1", "1.5e300", '"' + "v" * r.choice([0, 1, 30, 250]) + '"', "$", "e%d+1" % (i - 1), "9223372036854775807"])),
        lambda r, i: "m%d\tmacro a,b\n\tdb a\n\tendm\n\tm%d %d,2" % (i, i, i & 127), lambda r, i: "f%d\tfunction x,y,x*y+%d" % (i, i),
        lambda r, i: "s%d\tstruct\nfa\tds 1\nfb\tds 2\ns%d\tendstruct" % (i, i), lambda r, i: "\tsection q%d\nloc%d:\tnop\n\tpublic pub%d\npub%d:\tnop\n\tendsection" % (i, i, i, i),
        lambda r, i: "\tsegment %s\n\torg %d\n\tds %d\n\tsegment code" % (r.choice(["data", "code", "xdata"]), r.randrange(4096), r.randrange(1, 40)),
        lambda r, i: "\tdb " + ",".join(str(r.randrange(256)) for _ in range(r.choice([1, 8, 9, 40, 300]))), lambda r, i: "; " + "c" * r.choice([0, 79, 80, 255, 400]),
        lambda r, i: "\tif %d\n\tnop\n\telse\n\tdb 1\n\tendif" % r.randrange(2), lambda r, i: "\trept %d\n\tnop\n\tendm" % r.randrange(5),
        lambda r, i: "\tcodepage cp%d\n\tcharset 'a',%d\n\tcodepage standard" % (i, r.randrange(256)), lambda r, i: "\torg $%x" % r.randrange(0x8000),
        lambda r, i: "sh%d\tequ %d\n\tshared sh%d" % (i, i, i), lambda r, i: "\tdb undefd%d" % i, lambda r, i: "\tphase %d\np%d:\tnop\n\tdephase" % (r.randrange(65536), i)]


def gen_listing_programs(seed_rng, n):
    """whole programs: listing-control statements (1-4 in front, some in the middle) around a body of 3..25 random elements"""
    cases = []
    for k in range(n):
        r = seed_rng
        lines = ["\tcpu %s" % r.choice(["z80", "8051", "6502", "6809"])]
        for _ in range(r.choice([1, 1, 2, 4])):
            lines.append(r.choice(CTRL)(r))
        for i in range(r.choice([3, 6, 12, 25])):
            lines.append(r.choice(BODY)(r, i + 1))
            if r.random() < 0.15:
                lines.append(r.choice(CTRL)(r))
        if r.random() < 0.3:
            lines.append("\tend %s" % r.choice(["", "l1", "0"]))
        src = "\n".join(lines) + "\n"
        cases.append(dict(kind="asl", cls="listing", op="program", src=src.encode("latin-1"), tag="listing:program:%d" % k, opts=optset(r, r.choice(["list", "list", "mixed"]))))
    return cases


# ---------------------------------------------------------------------------------------------------------------------
# recursion through built-in functions that evaluate text

def gen_val_recursion(rng, n):
    cases = []
    uses = ["\tdb {e}", "\tdw {e}", "r\tequ {e}", "\tif {e}\n\tnop\n\tendif", "\tmessage \"\\{{{e}}}\"", "r\tset {e}\nr\tset r+{e}", "\torg {e}", "\tds {e}",
            "\tdb 1,{e},{e}", "m\tmacro p\n\tdb p\n\tendm\n\tm {e}", "\trept {e}\n\tnop\n\tendm", "\tswitch {e}\n\tcase 1\n\tnop\n\tendcase", "\tdb strlen({e})", "\tdb exprtype({e})"]
    for k in range(n):
        r = rng
        shape = r.choice(["self", "self-expr", "cycle", "chain-cycle", "function", "function-mutual", "nested", "chain-finite", "symbol-string", "upstring"])
        lines = ["\tcpu %s" % r.choice(["z80", "68000", "6502"])]
        names = ["s%d" % i for i in range(r.choice([2, 2, 3, 4]))]
        pre, post = r.choice([("", ""), ("1+", ""), ("", "*2"), ("(", ")"), ("-", ""), ("1+", "*2+3"), ("~", ""), ("2*(1+", ")")])
        if shape == "self":
            lines.append('s0\tset "val(s0)"')
            e = "val(s0)"
        elif shape == "self-expr":
            lines.append('s0\tset "%sval(s0)%s"' % (pre, post))
            e = r.choice(["val(s0)", "1+val(s0)", "val(s0)+val(s0)"])
        elif shape == "cycle":
            for i, nm in enumerate(names):
                lines.append('%s\tset "%sval(%s)%s"' % (nm, pre, names[(i + 1) % len(names)], post))
            e = "val(%s)" % r.choice(names)
        elif shape == "chain-cycle":
            depth = r.choice([2, 5, 20])
            for i in range(depth):
                lines.append('c%d\tset "val(c%d)+1"' % (i, i + 1))
            lines.append('c%d\tset "val(c%d)"' % (depth, r.randrange(depth + 1)))
            e = "val(c0)"
        elif shape == "function":
            lines.append("f\tfunction p,%sval(p)%s" % (pre, post))
            lines.append('s0\tset "f(s0)"')
            e = r.choice(["f(s0)", "val(s0)", 'f("f(s0)")'])
        elif shape == "function-mutual":
            lines.append("f\tfunction p,g(p)+1")
            lines.append("g\tfunction p,val(p)")
            lines.append('s0\tset "f(s1)"')
            lines.append('s1\tset "g(s0)"')
            e = r.choice(["f(s0)", "g(s1)", "val(s0)+val(s1)"])
        elif shape == "nested":
            lines.append('s0\tset "s1"')
            lines.append('s1\tset "val(val(s0))"')
            e = r.choice(["val(val(s0))", "val(val(val(s0)))", "val(s1)"])
        elif shape == "chain-finite":
            depth = r.choice([1, 10, 100, 300, 1000])
            lines.append("\trept 0\n\tendm")
            for i in range(depth):
                lines.append('c%d\tset "val(c%d)+1"' % (i, i + 1))
            lines.append('c%d\tset "1"' % depth)
            e = "val(c0)"
        elif shape == "symbol-string":
            lines.append('s0\tset "\\"val(s0)\\""')
            lines.append('s1\tset "val(val(s0))"')
            e = r.choice(["val(s1)", "val(val(s0))", "val(s0)"])
        else:
            lines.append('s0\tset "VAL(LOWSTRING(S0))"')
            lines.append('s1\tset "val(upstring(s1))"')
            e = r.choice(["val(upstring(s0))", "val(s1)", "val(substr(s1,0,0))", "val(s0+\"+1\")"])
        for _ in range(r.choice([1, 1, 2])):
            lines.append(r.choice(uses).replace("{{", "\x01").replace("}}}", "}\x02").replace("}}", "\x02").replace("{e}", e).replace("\x01", "{").replace("\x02", "}"))
        src = "\n".join(lines) + "\n"
        opts = [] if r.random() < 0.6 else optset(r)
        cases.append(dict(kind="asl", cls="val-recursion", op=shape, src=src.encode("latin-1"), tag="valrec:%s:%d" % (shape, k), opts=opts))
    return cases


# ---------------------------------------------------------------------------------------------------------------------
# statements that write code, for the output-disabling / unusual option sets

BIGFILES = {"big513.bin": 513, "big1024.bin": 1024, "big1300.bin": 1300, "big5000.bin": 5000, "blob.bin": 64, "b512.bin": 512}

OUT_STMT = [
    lambda r: "\tbinclude \"%s\"" % r.choice(list(BIGFILES)),
    lambda r: "\tbinclude \"%s\",%d" % (r.choice(list(BIGFILES)), r.choice([0, 1, 511, 512, 513, 1000])),
    lambda r: "\tbinclude \"%s\",%d,%d" % (r.choice(list(BIGFILES)), r.choice([0, 1, 100]), r.choice([0, 1, 511, 512, 513, 600, 1200, 6000])),
    lambda r: "\tdb %d dup (%d)" % (r.choice([1, 511, 512, 513, 1000, 1025]), r.randrange(256)),
    lambda r: "\tdb %s" % ",".join(["$%02x" % r.randrange(256)] * r.choice([1, 255, 256, 600])),
    lambda r: "\tds %d" % r.choice([0, 1, 512, 513, 4096, 65535]),
    lambda r: "\tdw %d dup (1,2,3)" % r.choice([100, 171, 200]),
    lambda r: "\tsave\n\torg $%x\n\tdb 1,2,3\n\trestore" % r.randrange(0x4000),
    lambda r: "\tsave\n\tsegment data\n\tds 10\n\trestore\n\tdb 4",
    lambda r: "\tphase $%x\n\tdb %d dup (7)\n\tdephase" % (r.randrange(0x8000), r.choice([1, 600])),
    lambda r: "\torg $%x" % r.randrange(0x8000),
    lambda r: "\tsegment data\n\tds 3\n\tsegment code",
    lambda r: "lab%d:\tnop" % r.randrange(1000),
    lambda r: "sh%d\tequ 5\n\tshared sh%d" % ((r.randrange(1000),) * 2),
    lambda r: "\talign %d" % r.choice([1, 2, 256, 1024]),
    lambda r: "\trept 300\n\tdb 1,2\n\tendm",
    lambda r: "\tinclude \"inc.inc\"",
    lambda r: "\terror \"stop\"" if r.random() < 0.3 else "\twarning \"w\"",
    lambda r: "\tend",
]
OUT_STMT_M68K = [
    lambda r: "\tdc.b [%d]%d" % (r.choice([1, 512, 513, 1000]), r.randrange(256)),
    lambda r: "\tdc.l [%d]$12345678" % r.choice([1, 128, 129, 255, 300]),
    lambda r: "\tdc.w [%d]\"ab\"" % r.choice([1, 256, 257, 500]),
    lambda r: "\tds.l %d" % r.choice([0, 1, 128, 129, 5000]),
    lambda r: "\tbinclude \"%s\"" % r.choice(list(BIGFILES)),
    lambda r: "\tsave\n\tphase $%x\n\tdc.b [600]1\n\tdephase\n\trestore" % r.randrange(0x8000),
    lambda r: "\teven",
]


def gen_output_programs(rng, n):
    cases = []
    for k in range(n):
        r = rng
        m68k = r.random() < 0.3
        lines = ["\tcpu %s" % ("68000" if m68k else r.choice(["z80", "6502", "8051", "avr", "320c25"]))]
        pool = OUT_STMT + (OUT_STMT_M68K * 2 if m68k else [])
        for _ in range(r.choice([1, 2, 4, 8])):
            lines.append(r.choice(pool)(r))
        src = "\n".join(lines) + "\n"
        fam = r.choice(["nocode", "nocode", "paths", "mixed", "side"])
        cases.append(dict(kind="asl", cls="output-options", op=fam, src=src.encode("latin-1"), tag="outopt:%s:%d" % (fam, k), opts=optset(r, fam)))
    return cases


# the line-info list of the debug output (-g) is built with a linear search per source line: quadratic in the number of lines (t_m16, 49703 lines:
# 0.15 s without, 6.5 s with -g MAP, 64 s with -g ATMEL in the plain build).  It ends, so it is no violation of the property (DESIGN.md 4.3: time in
# proportion to the work described, 10 s per 100 lines), but it does not fit the per-run CPU limit of the sanitizer build: no -g for such sources.
BIG_SOURCE_LINES = 5000


def without_debug_info(opts):
    out, skip = [], 0
    for i, o in enumerate(opts):
        if skip:
            skip -= 1
            continue
        if o == "-g":
            if i + 1 < len(opts) and not opts[i + 1].startswith(("-", "+")):
                skip = 1
            continue
        if o == "-noicemask":
            skip = 1
            continue
        out.append(o)
    return out


def with_random_options(rng, cases, frac=1.0):
    """a second run of existing cases (corpus / grammar / mutants / raw) under a random option set"""
    out = []
    for c in cases:
        if frac < 1.0 and rng.random() >= frac:
            continue
        c2 = dict(c)
        c2["opts"] = optset(rng)
        if c["src"].count(b"\n") > BIG_SOURCE_LINES:
            c2["opts"] = without_debug_info(c2["opts"])
        c2["tag"] = c["tag"] + ":opts"
        c2["cls"] = c["cls"] + "+opts"
        out.append(c2)
    return out
