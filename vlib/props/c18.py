"""C18 - files assembled in one invocation do not influence each other.

(A) Props/C18.lean: independence of the file/pass model for every file list given reset completeness; the
    reset inventory of the *current* sources (Generated/GenState.lean, clang AST of all code*.c + core) as
    `decide` obligations minus the listed known findings.
(B) correspondence: generated histories over *probes* (an instruction whose code depends on a statement-settable
    variable of a code generator, calibrated on the real binary each run) - the model, parameterised by the
    generated reset table, must predict the real joint run `asl f1 f2 ...` (and forced further passes, hook H1).
(C) spec on the implementation, differential and labelled as such: `asl a b` vs `asl a`, `asl b`:
    .p of every file byte for byte, stdout/stderr = concatenation, exit status = worst of the single ones;
    golden-corpus pairs/triples, generated failing predecessors (open constructs, mode changes), one
    ASSUME/ON-OFF setter per inventory variable against golden successors of the same target, and
    trailing-statement files under one forced further pass.
(A+B+C) c18_options.py: the same under invocation options that create per-file state or per-file outputs (-E, -L, -g, -Y, ...):
    every output file of the joint run vs the stand-alone runs; Model/FileOut.lean (error log handle, JmpErrors) and Props/C18_Outputs.lean.
(A'+C') c18_statics.py: the reset inventory widened to every file-scope / function-static variable of every code*.c
    (Generated/GenStatics.lean, Props/C18_Statics.lean), the experiments behind its exception list and setter histories
    for the persistent variables whose writing instruction is known.
(A''+C'') c18_carry.py: what a target selection / a pass leaves behind in the CORE (Generated/GenCarry.lean from translate/carry.py, Props/C18_Carry.lean):
    core globals some SwitchTo_* assigns and another does not must be reset by SetCPUCore; every variable of the 17 core modules written during a
    pass must be assigned on the per-pass / per-file path; differential classes "predecessor selects a keyword-occupying target, successor uses the
    keyword's generic meaning" and "predecessor leaves temporary-symbol state, successor references before defining".
"""
import concurrent.futures
import json
import os
import re

from .. import common
from ..common import log

INC = ["-q", "-i", os.path.join(common.REPO, "include")]

# --------------------------------------------------------------------------------------------
# probes: (file, C variable, cpu, statement that sets it, lines whose code/diagnostics depend on it, value a, value b)
# value a is what a fresh process has; the calibration measures all three outcomes and drops a probe whose
# outcomes for a and b do not differ or whose default is neither.


def _onoff(name):
    return lambda v: "\t%s %s" % (name, "on" if v else "off")


def _assume(reg, fmt="%d"):
    return lambda v: ("\tassume %s:" + fmt) % (reg, v)


PROBES = [
    dict(file="code65.c", var="SpecPage", cpu="melps740", set=_assume("sp"), probe=["\tjsr \\$1234"], a=0, b=0x12),
    dict(file="code65.c", var="RegB", cpu="65ce02", set=_assume("b"), probe=["\tlda $1234"], a=0, b=0x12),
    dict(file="code65.c", var="MPR[2]", cpu="huc6280", set=_assume("mpr2"), probe=["\tlda $4010"], a=2, b=0x80),
    dict(file="code78k4.c", var="Reg_RSS", cpu="784026", set=_assume("rss"), probe=["\tmov a,#12h"], a=0, b=1),
    dict(file="code78k4.c", var="Reg_LOCATION", cpu="784026", set=_assume("location"), probe=["\tmov a,0fe30h"], a=0, b=15),
    dict(file="code78k3.c", var="Reg_RSS", cpu="78310", set=_assume("rss"), probe=["\tmov r5,1234h"], a=0, b=1),
    dict(file="codesx20.c", var="Reg_FSR", cpu="sx20", set=_assume("fsr"), probe=["\tmov w,$13"], a=0, b=0x10),
    dict(file="codesx20.c", var="Reg_STATUS", cpu="sx20", set=_assume("status"), probe=["\tjmp $056"], a=0, b=0x40),
    dict(file="codeol50.c", var="PRegAssume", cpu="msm5054", set=_assume("p"), probe=["\tadd acc,13h"], a=0, b=1),
    dict(file="codemn2610.c", var="BaseRegVals[0]", cpu="mn1613alt", set=_assume("csbr"), probe=["\tld r1,X'4000'"], a=0, b=1),
    dict(file="codemn2610.c", var="BaseRegVals[1]", cpu="mn1613alt", set=_assume("ssbr"), probe=["\tld r1,ssbr,X'4000'"], a=0, b=1),
    dict(file="codemn2610.c", var="BaseRegVals[2]", cpu="mn1613alt", set=_assume("tsr0"), probe=["\tld r1,tsr0,X'8000'"], a=0, b=2),
    dict(file="codemn2610.c", var="BaseRegVals[3]", cpu="mn1613alt", set=_assume("tsr1"), probe=["\tld r1,tsr1,X'c000'"], a=0, b=3),
    dict(file="code7000.c", var="CompLiterals", cpu="sh7600", set=_onoff("compliterals"),
         probe=["\tmov.l #fwd,r1", "\tmov.l #fwd,r2", "\tnop", "\tnop", "\tltorg", "fwd\tequ $12345678"], a=0, b=1, repass=True),
    dict(file="code6809.c", var="DPRValue", cpu="6809", set=_assume("dpr"), probe=["\tlda $1234"], a=0, b=0x12),
    dict(file="codez8.c", var="RPVal", cpu="z8601", set=_assume("rp"), probe=["\tld 21h,#1"], a=0, b=0x20),
    dict(file="code6812.c", var="Reg_Direct", cpu="68hc12x", set=_assume("direct"), probe=["\tldaa $1234"], a=0, b=0x12),
    dict(file="code7700.c", var="Reg_DPR", cpu="melps7700", set=_assume("dpr"), probe=["\tlda a,$1234"], a=0, b=0x1200),
    dict(file="code68k.c", var="FPUAvail", cpu="68020", set=_onoff("fpu"), probe=["\tfmove.x fp0,fp1"], a=0, b=1),
    dict(file="code68k.c", var="PMMUAvail", cpu="68020", set=_onoff("pmmu"), probe=["\tpflusha"], a=0, b=1),
    dict(file="code51.c", var="SrcMode", cpu="80c251", set=_onoff("srcmode"), probe=["\tinc r1"], a=0, b=1),
    dict(file="codez80.c", var="ExtFlag", cpu="z380", set=_onoff("extmode"), probe=["\tld hl,(123456h)"], a=0, b=1),
    dict(file="codeh8_5.c", var="Reg_BR", cpu="hd6475348", set=_assume("br"), probe=["\tmov.b @h'1234:8,r0"], a=0, b=0x12),
]

# trailing statements that change core / generator state (predecessor tails and forced-pass tails)
FAIL_PREDS = [
    ("open-if", ["\tif 1", "\tbyt 1"]),
    ("open-if-not-taken", ["\tif 0", "\tbyt 1"]),
    ("open-else-of-taken-if", ["\tif 1", "\tbyt 1", "\telse", "\tbyt 2"]),
    ("open-elseif-after-taken", ["\tif 1", "\tbyt 1", "\telseif 1", "\tbyt 2"]),
    ("open-ifdef-undefined", ["\tifdef nosuchsymbol", "\tbyt 1"]),
    ("open-nested-if-in-skipped", ["\tif 0", "\tif 1", "\tbyt 1", "\tendif"]),
    ("open-switch-no-match", ["\tswitch 1", "\tcase 2", "\tbyt 1"]),
    ("open-switch-after-match", ["\tswitch 1", "\tcase 1", "\tbyt 1", "\tcase 3", "\tbyt 2"]),
    ("open-macro", ["m1\tmacro", "\tbyt 1"]),
    ("open-section", ["\tsection s1", "\tbyt 1"]),
    ("open-struct", ["st1\tstruct", "f1\tds.b 1"]),
    ("open-save", ["\tsave", "\tbyt 1"]),
    ("open-phase", ["\tphase $100", "\tbyt 1"]),
    ("open-expect", ["\texpect 10", "\tbyt 1"]),
    ("open-rept", ["\trept 3", "\tbyt 1"]),
    ("open-irp", ["\tirp x,1,2", "\tbyt x"]),
    ("open-while", ["\twhile 1", "\tbyt 1"]),
    ("open-switch", ["\tswitch 1", "\tcase 1", "\tbyt 1"]),
    ("relaxed", ["\trelaxed on", "\tbyt 0x10"]),
    ("radix", ["\tradix 16", "\tbyt 10"]),
    ("outradix", ["\toutradix 2"]),
    ("charset", ["\tcharset 'a','z','A'", "\tbyt \"abc\""]),
    ("padding", ["\tcpu 68000", "\tpadding off", "\tdc.b 1"]),
    ("supmode", ["\tcpu 68000", "\tsupmode on", "\tmove.w sr,d0"]),
    ("pushv", ["x1\tset 5", "\tpushv s,x1"]),
    ("function", ["f1\tfunction a,a*2", "\tbyt f1(2)"]),
    ("z80syntax", ["\tcpu 8080", "\tz80syntax on", "\tld a,b"]),
    ("intsyntax", ["\tintsyntax +0hex,-$hex", "\tbyt 0x10"]),
    ("compmode", ["\tcompmode on"]),
    ("dottedstructs", ["\tdottedstructs on"]),
    ("listing-off", ["\tlisting off", "\tmacexp off"]),
    ("enum", ["\tenum e1=5,e2", "\tnextenum e3"]),
    ("segment", ["\tcpu 8051", "\tsegment data", "\torg 30h", "\tdb 1 dup (?)"]),
    ("org-end", ["\torg $1000", "\tbyt 1", "\tend $1000"]),
    ("defined-symbols", ["lab1\tequ 5", "lab2\tset 6", "\tshared lab1"]),
    ("error-stmt", ["\terror \"stop here\"", "\tbyt 1"]),
    ("warning-stmt", ["\twarning \"careful\"", "\tbyt 1"]),
    ("unknown-instr", ["\tnosuchinstruction 1,2", "\tbyt 1"]),
    ("assume-6809", ["\tcpu 6809", "\tassume dpr:$12", "\tlda $1234"]),
    ("title-page", ["\ttitle \"abc\"", "\tpage 20,80", "\tnewpage"]),
    # output that is queued for the code file when the file ends (relocation / export records behind the last code, in a file without code,
    # under RORG): it must not turn up in the successor's code file
    ("export-after-last-code", ["xs1:\tbyt 1", "\torg $2000", "\texport_sym xs1"]),
    ("export-without-code", ["xs2\tequ 5", "\texport_sym xs2"]),
    ("export-rorg-tail", ["\trorg $100", "xs3:\tbyt 1", "\trorg $200", "\texport_sym xs3"]),
    ("extern-tail", ["\textern_sym xe1", "\tbyt 1", "\torg $300"]),
]

# a successor that uses as many target-independent constructs as possible (conditional assembly incl. SWITCH/CASE, macros, repetitions,
# structures, sections, functions, strings, character sets, listing control): a hook or flag that a predecessor's code generator
# installed in the core (instruction-name overrides, operand-syntax switches ...) and that is not taken back shows here
RICH_SUCC = ("succ-rich", [
    "\tcpu z80", "\torg 100h", "sel\tequ 2",
    "\tswitch sel", "\tcase 1", "\tdb 11h", "\tcase 2,3", "\tdb 22h", "\telsecase", "\tdb 33h", "\tendcase",
    "\tif sel=2", "\tdb 44h", "\telseif sel=3", "\tdb 45h", "\telse", "\tdb 46h", "\tendif",
    "\tifdef sel", "\tdb 47h", "\tendif", "\tifndef nosuch", "\tdb 48h", "\tendif",
    "mm\tmacro a,b=7", "\tdb a,b", "\tendm", "\tmm 1", "\tmm 2,3",
    "\trept 2", "\tdb 55h", "\tendm", "\tirp v,1,2", "\tdb v", "\tendm", "\tirpc c,\"ab\"", "\tdb 'c'", "\tendm",
    "cnt\tset 0", "\twhile cnt<2", "\tdb cnt", "cnt\tset cnt+1", "\tendm",
    "rec\tstruct", "f1\tdb ?", "f2\tdw ?", "rec\tendstruct", "\tdb rec_len,rec_f2",
    "\tsection s1", "loc:\tnop", "\tpublic glo", "glo:\tnop", "\tendsection", "\tdw glo",
    "dbl\tfunction x,x*2", "\tdb dbl(21)", "\tdb strlen(\"abc\"),upstring(\"a\")=\"A\"",
    "\tcharset 'a','c',1", "\tdb \"abc\"", "\tcharset",
    "\tlisting off", "\tdb 66h", "\tlisting on", "\tpage 60", "\ttitle \"t\"",
    "\tpushv ,cnt", "cnt\tset 9", "\tpopv ,cnt", "\tdb cnt",
    "\tsave", "\tcpu 8080", "\tmvi a,1", "\trestore", "\tld a,2",
    "\tphase 8000h", "ph:\tjr ph", "\tdephase", "\talign 4", "\tdb 77h", "\tds 2", "\tdb 88h",
    "\tmessage \"v=\\{sel}\"", "\tend 100h"])

# successors that read generic core state
CORE_SUCC = [
    ("succ-6502", ["\tcpu 6502", "\tbyt 10,$10,%101", "\tlda #10", "\tbyt \"abc\"", "lab1\tequ 7", "\tbyt lab1", "\tif 1", "\tbyt 2", "\tendif"]),
    ("succ-68k", ["\tcpu 68000", "\tdc.b 1", "\tdc.w 2", "\tmove.w #10,d0", "x1\tset 3", "\tdc.b x1"]),
    ("succ-z80", ["\tcpu z80", "\tld a,b", "\tdb 10h,10", "\tdw 1234h", "m1\tmacro p", "\tdb p", "\tendm", "\tm1 5"]),
    ("succ-8051", ["\tcpu 8051", "\tmov a,#10", "\tsegment data", "\torg 20h", "v1:\tdb ?", "\tsegment code", "\tmov a,v1"]),
    ("succ-msg", ["\tcpu 6502", "\tmessage \"v=\\{10}\"", "\tbyt $ff >> 4", "st1\tstruct", "f1\tdfs 2", "st1\tendstruct", "\tbyt st1_len"]),
]


def _outcome(bdir, wd, name, lines, env=None):
    """assemble one generated source alone; returns (rc, out, p bytes or None)"""
    f = os.path.join(wd, name + ".asm")
    with open(f, "w") as fh:
        fh.write("\n".join(lines) + "\n")
    pf = os.path.join(wd, name + ".p")
    if os.path.exists(pf):
        os.unlink(pf)
    rc, so, se = common.run_tool(bdir, "asl", INC + [f, "-o", pf], wd, timeout=60, env=env)
    pb = open(pf, "rb").read() if os.path.exists(pf) else None
    return rc, (so + se).replace(f.encode(), b"<src>").replace(os.path.basename(f).encode(), b"<src>"), pb


def _payload(pb):
    """code bytes of a .p file (all records), for comparing probe outcomes independent of the file name"""
    if pb is None:
        return None
    items = common.parse_pfile_py(pb)
    if items is None:
        return pb.hex()
    return ";".join("%d:%d:%x:%s" % (it[1], it[2], it[4], bytes(it[5]).hex()) for it in items if it[0] == "D")


def calibrate(bdir, wd, probes):
    """measure outcome(a), outcome(b), outcome(fresh process) of every probe; keep the usable ones"""
    good, dropped = [], []
    for i, p in enumerate(probes):
        def oc(setv):
            lines = ["\tcpu " + p["cpu"]] + ([p["set"](setv)] if setv is not None else []) + p["probe"]
            rc, out, pb = _outcome(bdir, wd, "cal%d" % i, lines)
            return (rc, tuple(_diag_kinds(out)), _payload(pb))
        oa, ob, od = oc(p["a"]), oc(p["b"]), oc(None)
        if oa == ob or od not in (oa, ob) or oa[0] not in (0, 2) or ob[0] not in (0, 2):
            dropped.append("%s:%s (a=%s b=%s default=%s)" % (p["file"], p["var"], oa[0], ob[0], od[0]))
            continue
        q = dict(p)
        q["oa"], q["ob"] = oa, ob
        q["dflt"] = p["a"] if od == oa else p["b"]
        q["bad"] = [v for v, o in ((p["a"], oa), (p["b"], ob)) if o[0] != 0]
        q["codeprobe"] = (oa[0] == 0 and ob[0] == 0 and oa[2] != ob[2] and oa[1] == ob[1])
        good.append(q)
    return good, dropped


# --------------------------------------------------------------------------------------------
# histories over probes

def gen_history(rng, probes, kind):
    """a history = list of files; a file = dict(extra, ops) with ops over probe indices
    ops: ('g', i) cpu of probe i | ('s', i, val) | ('p', i) | ('e',) | ('u', k) open construct k | ('G',) cpu 6502 (foreign generator)"""
    n = len(probes)
    i = rng.randrange(n)
    pi = probes[i]
    other = lambda: pi["b"] if rng.random() < 0.8 else pi["a"]
    if kind == "pair":
        return [dict(extra=0, ops=[("g", i), ("s", i, other())]), dict(extra=0, ops=[("g", i), ("p", i)])]
    if kind == "pair-fail":
        tail = rng.choice([[("e",)], [("u", rng.randrange(4))], [("u", 0), ("e",)]])
        return [dict(extra=0, ops=[("g", i), ("s", i, other())] + tail), dict(extra=0, ops=[("g", i), ("p", i)])]
    if kind == "triple":
        j = rng.randrange(n)
        mid = rng.choice([[("G",)], [("g", j), ("s", j, probes[j]["b"])], [("g", j), ("p", j)]])
        return [dict(extra=0, ops=[("g", i), ("s", i, other())]), dict(extra=0, ops=mid), dict(extra=0, ops=[("g", i), ("p", i)])]
    if kind == "extra-pass":
        return [dict(extra=rng.choice([1, 1, 2]), ops=[("g", i), ("p", i), ("s", i, other())])]
    if kind == "set-probe":
        # in-file ASSUME is seen by the probe; afterwards a fresh file sees the default again (or not)
        return [dict(extra=0, ops=[("g", i), ("s", i, other()), ("p", i)]), dict(extra=0, ops=[("g", i), ("p", i)])]
    if kind == "cpu-switch":
        # switching away and back inside one file: SwitchTo-reset variables restart, InitPass-reset ones keep the ASSUME
        return [dict(extra=0, ops=[("g", i), ("s", i, other()), ("G",), ("g", i), ("p", i)]), dict(extra=0, ops=[("g", i), ("p", i)])]
    # random
    files = []
    for _ in range(rng.randrange(2, 5)):
        ops = []
        j = rng.randrange(n) if rng.random() < 0.5 else i
        ops.append(("g", j))
        nprobe = 0
        for _k in range(rng.randrange(1, 4)):
            r = rng.random()
            if r < 0.45:
                ops.append(("s", j, rng.choice([probes[j]["a"], probes[j]["b"], probes[j]["b"]])))
            elif r < 0.85 and nprobe == 0:
                ops.append(("p", j))
                nprobe += 1
            elif r < 0.92:
                ops.append(("u", rng.randrange(4)))
            else:
                ops.append(("e",))
        files.append(dict(extra=1 if rng.random() < 0.15 else 0, ops=ops))
    return files


CONSTRUCTS = [["\tif 1"], ["\tsave"], ["\tsection sx"], ["stx\tstruct"]]


def render_file(probes, f):
    lines = []
    for op in f["ops"]:
        if op[0] == "g":
            lines.append("\tcpu " + probes[op[1]]["cpu"])
        elif op[0] == "G":
            lines.append("\tcpu 6502")
        elif op[0] == "s":
            lines.append(probes[op[1]]["set"](op[2]))
        elif op[0] == "p":
            lines += probes[op[1]]["probe"]
        elif op[0] == "e":
            lines.append("\terror \"generated\"")
        elif op[0] == "u":
            lines += CONSTRUCTS[op[1]]
    return lines


def op_token(op, probes=None):
    if op[0] == "p" and probes is not None:
        return "p%d" % op[1] + "".join("!%d" % v for v in probes[op[1]]["bad"])
    if op[0] == "g":
        return "g%d" % op[1]
    if op[0] == "G":
        return "G%d" % GEN_6502
    if op[0] == "s":
        return "s%d=%d" % (op[1], op[2])
    if op[0] == "p":
        return "p%d" % op[1]
    if op[0] == "e":
        return "e"
    if op[0] == "u":
        return "u%d" % op[1]
    raise AssertionError(op)


GEN_6502 = 0   # set in run(): generator number of code65.c


def decode_obs(probes, f, rc_failed, out, payload, expect_cache, bdir, wd):
    """map the real outcome of one file to the model's observation alphabet: error flag + probe values.
    The file's outcome is compared with the outcomes of the same file text in which every probe is preceded by an
    explicit ASSUME of a candidate value (assembled alone in a fresh process = calibration in context)."""
    pidx = [op[1] for op in f["ops"] if op[0] == "p"]
    if not pidx:
        return "%d:-" % (1 if rc_failed else 0)
    # candidates: every assignment of a/b to the probes of this file (at most 1 probe per generated file)
    import itertools
    cands = []
    for vals in itertools.product(*[(probes[i]["a"], probes[i]["b"]) for i in pidx]):
        key = (json.dumps(f["ops"]), vals)
        if key not in expect_cache:
            lines, k = [], 0
            for op in f["ops"]:
                if op[0] == "p":
                    lines.append(probes[op[1]]["set"](vals[k]))
                    k += 1
                lines += render_file(probes, dict(ops=[op]))
            rc, o, pb = _outcome(bdir, wd, "dec", lines)
            expect_cache[key] = (rc != 0, o, _payload(pb))
        cands.append((vals, expect_cache[key]))
    hits = [vals for vals, (efail, eo, ep) in cands if efail == rc_failed and ep == payload and _diag_kinds(eo) == _diag_kinds(out)]
    if len(hits) == 1:
        return "%d:%s" % (1 if rc_failed else 0, ",".join(str(v) for v in hits[0]))
    if len(hits) == len(cands) and len(cands) > 1:
        return "%d:%s" % (1 if rc_failed else 0, ",".join("?" for _ in pidx))
    return "%d:%s" % (1 if rc_failed else 0, ",".join("x" for _ in pidx))


def _diag_kinds(out):
    """diagnostic classes of an output, without line numbers (the explicit ASSUME of the decoder shifts lines)"""
    import re
    ks = []
    for l in out.decode(errors="replace").split("\n"):
        if "<src>" not in l:
            continue   # diagnostics without a position (open constructs at the end of a pass) are compared by the harness directly
        m = re.search(r"(error|warning): (.*)$", l)
        if m:
            ks.append((m.group(1), m.group(2).strip()))
    return ks


def run_joint(bdir, wd, tag, sources, extras=None, env=None):
    """sources: list of (name, lines). returns rc, out, [p bytes or None]"""
    paths, outs = [], []
    for name, lines in sources:
        f = os.path.join(wd, "%s_%s.asm" % (tag, name))
        with open(f, "w") as fh:
            fh.write("\n".join(lines) + "\n")
        paths.append(f)
        pf = f[:-4] + ".p"
        if os.path.exists(pf):
            os.unlink(pf)
        outs.append(pf)
    args = INC + paths
    for o in outs:
        args += ["-o", o]
    rc, so, se = common.run_tool(bdir, "asl", args, wd, timeout=120, env=env)
    pbs = [open(o, "rb").read() if os.path.exists(o) else None for o in outs]
    return rc, so, se, pbs, paths


def run_paths(bdir, wd, tag, asm_paths, env=None):
    """real files (golden tests): joint or single run with explicit -o per file"""
    outs = [os.path.join(wd, "%s_%d.p" % (tag, i)) for i in range(len(asm_paths))]
    for o in outs:
        if os.path.exists(o):
            os.unlink(o)
    args = INC + list(asm_paths)
    for o in outs:
        args += ["-o", o]
    rc, so, se = common.run_tool(bdir, "asl", args, wd, timeout=180, env=env)
    pbs = []
    for o in outs:
        if os.path.exists(o):
            pbs.append(open(o, "rb").read())
            os.unlink(o)
        else:
            pbs.append(None)
    return rc, so, se, pbs


def norm_passes(r):
    """result of a run up to repetition of per-pass output (messages and warnings are printed in every pass)"""
    return (r[0], sorted(set(r[1].split(b"\n"))), sorted(set(r[2].split(b"\n"))), r[3])


def worst(rcs):
    rcs = list(rcs)
    if any(not isinstance(r, int) or r < 0 for r in rcs):
        return "abnormal"
    return max(rcs) if rcs else 0


def compare_joint(single, joint):
    """single: list of (rc, so, se, pb) per file; joint: (rc, so, se, [pb]).  returns list of differences"""
    diffs = []
    rc, so, se, pbs = joint
    if rc != worst(s[0] for s in single):
        diffs.append("exit status %s, single runs %s" % (rc, [s[0] for s in single]))
    if so != b"".join(s[1] for s in single):
        diffs.append("stdout differs from the concatenation of the single runs")
    if se != b"".join(s[2] for s in single):
        diffs.append("stderr differs from the concatenation of the single runs")
    for i, (s, pb) in enumerate(zip(single, pbs)):
        if s[3] != pb:
            where = [(k, pb[k], s[3][k]) for k in range(min(len(pb), len(s[3]))) if pb[k] != s[3][k]][:6] if pb is not None and s[3] is not None else []
            diffs.append("code file of file %d differs (%s vs %s bytes; first differences (offset, joint, single): %s)" % (i, None if pb is None else len(pb), None if s[3] is None else len(s[3]), where))
    return diffs


# --------------------------------------------------------------------------------------------

def find_setters(bdir, wd, gens):
    """for every ASSUME / ON-OFF row of the inventory: a (cpu, statement) pair the real binary accepts"""
    setters = []
    cpu_ok = {}

    def cpu_valid(name):
        if name not in cpu_ok:
            rc, out, pb = _outcome(bdir, wd, "cpuv", ["\tcpu " + name])
            cpu_ok[name] = (rc == 0)
        return cpu_ok[name]
    for g in gens:
        names = list(g["cpuNames"]) + list(g["cpuCandidates"])
        for v in g["vars"]:
            if v["kind"] == "cpuarg" or "[" in v["name"]:
                continue
            if v["kind"] == "assume":
                lo, hi = v["min"], v["max"]
                if lo is None or hi is None:
                    continue
                val = hi if hi != 0 else lo
                if v["nothing"] == val:
                    val = lo
                stmt = "\tassume %s:%d" % (v["name"], val)
            else:
                stmt = "\t%s on" % v["name"]
            done = False
            for nm in names:
                if not cpu_valid(nm):
                    continue
                rc, out, pb = _outcome(bdir, wd, "setv", ["\tcpu " + nm, stmt])
                if rc == 0 and b"error" not in out:
                    setters.append(dict(file=g["file"], var=v["var"], name=v["name"], cpu=nm, lines=["\tcpu " + nm, stmt], cpus=[n.upper() for n in names if cpu_ok.get(n)]))
                    done = True
                    break
            if not done:
                setters.append(dict(file=g["file"], var=v["var"], name=v["name"], cpu=None))
    return setters


PRED_SIGS = {"dottedstructs": "core-not-reset-per-file:DottedStructs", "export-after-last-code": "export-pending-after-last-record",
             "export-without-code": "export-pending-after-last-record", "export-rorg-tail": "export-pending-after-last-record"}
LEAK_CLASSES = [(r"(?im)^\s*dottedstructs\s+on", "core-not-reset-per-file:DottedStructs", ["\tdottedstructs on"])]


def attribute(bdir, wd, asm_a, asm_b, alone_b, gens):
    """name the state a failing golden pair leaks: a minimal predecessor consisting of one statement of A must reproduce the influence on B"""
    import re
    try:
        txt = open(asm_a, "rb").read().decode("latin-1")
    except OSError:
        return None
    cands = [(sig, lines) for rx, sig, lines in LEAK_CLASSES if re.search(rx, txt)]
    for g in gens:
        for v in g["vars"]:
            if v["kind"] == "assume" and not (v["initPass"] or v["switchTo"] or v["core"]):
                for m in re.finditer(r"(?im)^\s*assume\s+(.*\b%s:[^,;\s]+)" % re.escape(v["name"]), txt):
                    cpus = re.findall(r"(?im)^\s*cpu\s+(\S+)", txt[:m.start()])
                    if cpus:
                        cands.append(("assume-not-reset:%s:%s" % (g["file"], v["var"]), ["\tcpu " + cpus[-1], "\tassume " + m.group(1)]))
    for sig, lines in cands:
        f = os.path.join(wd, "attr.asm")
        with open(f, "w") as fh:
            fh.write("\n".join(lines) + "\n")
        r = run_paths(bdir, wd, "attr", [f, asm_b])
        sp = run_paths(bdir, wd, "attrs", [f])
        if sp[0] == 0 and compare_joint([(sp[0], sp[1], sp[2], sp[3][0]), alone_b], r):
            return sig
    return None


def tests_by_cpu(tests):
    import re
    idx = {}
    for name, asm, _fl in tests:
        try:
            txt = open(asm, "rb").read().decode("latin-1")
        except OSError:
            continue
        for m in re.finditer(r"(?im)^\s*cpu\s+([A-Za-z0-9_./+-]+)", txt):
            idx.setdefault(m.group(1).upper(), set()).add(name)
    return idx


def run(args):
    global GEN_6502
    res = common.Result("C18", args.tier, args.seed, "proof")
    bdir, audit, proof_problems = common.standard_setup(res, "C18", ["GenState", "GenStatics", "TargetDesc", "GenCarry"])
    if bdir is None:
        return res.finish()
    drv_ok = not any(p.startswith("driver does not build") for p in proof_problems)
    from translate import globals as G
    try:
        gens, core = G.inventory(bdir)
        core_rows, _st, _facts = G.core_inventory(bdir)
    except G.ExtractError as ex:
        gens, core_rows = [], []
        if not any("translator" in p for p in proof_problems):
            proof_problems.append("translator: " + str(ex))
    files = [g["file"] for g in gens]
    GEN_6502 = files.index("code65.c") if "code65.c" in files else 0
    inv = {(g["file"], v["var"]): v for g in gens for v in g["vars"]}
    unreset_inv = sorted("%s:%s" % k for k, v in inv.items() if not (v["initPass"] or v["switchTo"] or v["core"]))

    quick = args.tier == "quick"
    rng = common.rng_for(args.seed, "C18")
    spec_fail, corr_fail, samples = [], [], []
    dist = dict(histories=0, probe_files=0, corpus_pairs=0, corpus_triples=0, failing_pred_pairs=0, setter_pairs=0, extra_pass_tails=0,
                kinds={}, probes_calibrated=0, predecessors_failing=0, successors_failing=0, witness_corpus=0)
    distinct = set()
    evaluations = 0
    tests = [t for t in common.corpus_tests() if not t[2]]

    with common.Workdir("c18") as wd:
        # ---------------- probes: calibration on the real binary
        probes, dropped = calibrate(bdir, wd, [p for p in PROBES if (p["file"], p["var"]) in inv])
        dist["probes_calibrated"] = len(probes)
        dist["probes_dropped"] = dropped + ["%s:%s (not in the inventory)" % (p["file"], p["var"]) for p in PROBES if (p["file"], p["var"]) not in inv]
        if len(probes) < 8:
            proof_problems.append("correspondence: only %d probes could be calibrated on the real binary" % len(probes))
        varsf = ";".join("%s:%s:%d" % (p["file"], p["var"], p["dflt"]) for p in probes) or "-"

        # ---------------- (B)+(C) histories over probes
        hist = []
        cdir = os.path.join(common.VERIF, "corpus", "C18")
        pidx = {(p["file"], p["var"]): i for i, p in enumerate(probes)}
        if os.path.isdir(cdir):
            for fn in sorted(os.listdir(cdir)):
                if fn.endswith(".json"):
                    d = json.load(open(os.path.join(cdir, fn)))
                    if d.get("kind") in ("history", "options"):
                        continue   # two-file witnesses, run by c18_targetdesc.py / histories under options, run by c18_options.py
                    key = (d["file"], d["var"])
                    if key in pidx:
                        i = pidx[key]
                        b = probes[i]["b"] if probes[i]["dflt"] == probes[i]["a"] else probes[i]["a"]
                        hist.append(("corpus:" + fn, [dict(extra=0, ops=[("g", i), ("s", i, b)]), dict(extra=0, ops=[("g", i), ("p", i)])]))
                        hist.append(("corpus-extra:" + fn, [dict(extra=1, ops=[("g", i), ("p", i), ("s", i, b)])]))
                        dist["witness_corpus"] += 1
        if probes:
            # every probe in every basic shape, then random ones
            for i in range(len(probes)):
                b = probes[i]["b"] if probes[i]["dflt"] == probes[i]["a"] else probes[i]["a"]
                hist.append(("each-pair:%d" % i, [dict(extra=0, ops=[("g", i), ("s", i, b)]), dict(extra=0, ops=[("g", i), ("p", i)])]))
                hist.append(("each-failpred:%d" % i, [dict(extra=0, ops=[("g", i), ("s", i, b), ("u", i % 4), ("e",)]), dict(extra=0, ops=[("g", i), ("p", i)])]))
                hist.append(("each-extra:%d" % i, [dict(extra=1, ops=[("g", i), ("p", i), ("s", i, b)])]))
                hist.append(("each-switch:%d" % i, [dict(extra=0, ops=[("g", i), ("s", i, b), ("G",), ("g", i), ("p", i)])]))
            kinds = ["pair", "pair-fail", "triple", "extra-pass", "set-probe", "cpu-switch", "random", "random"]
            for k in range(120 if quick else 1500):
                kind = kinds[k % len(kinds)]
                hist.append(("gen:%d:%s" % (k, kind), gen_history(rng, probes, kind)))
        expect_cache = {}
        reqs, metas = [], []
        for tag, h in hist:
            kind = tag.split(":")[0] + (":" + tag.split(":")[2] if tag.startswith("gen:") else "")
            dist["kinds"][kind] = dist["kinds"].get(kind, 0) + 1
            single, ftoks = [], []
            srcs = [("f%d" % k, render_file(probes, f)) for k, f in enumerate(h)]
            # joint run (extra passes apply to every file of the run: give all files the same `extra` in one history)
            ex = max(f["extra"] for f in h)
            if any(op[0] == "p" and not probes[op[1]]["codeprobe"] for f in h for op in f["ops"]):
                ex = 0   # diagnostics repeat per pass and a failing pass is not repeated: only pure code probes are decodable
            for f in h:
                f["extra"] = ex
            env = {"ASL_VERIF_EXTRA_PASSES": str(ex)} if ex else None
            jrc, jso, jse, jpbs, jpaths = run_joint(bdir, wd, "j", srcs, env=env)
            if jrc not in (0, 2):
                spec_fail.append(dict(tag=tag, why="joint run ended abnormally: %s" % jrc, sources=srcs))
                continue
            # what each file prints in the joint run is attributed through the single runs (same file names)
            sing = []
            for k, (nm, lines) in enumerate(srcs):
                src, sso, sse, spbs, _p = run_joint(bdir, wd, "j", [(nm, lines)], env=env)
                sing.append((src, sso, sse, spbs[0]))
            diffs = compare_joint(sing, (jrc, jso, jse, jpbs))
            badfiles = set(k for k in range(len(h)) if sing[k][3] != jpbs[k])
            if diffs and not badfiles:
                badfiles = set(range(len(h)))
            # forced further passes: the single run must also equal the run without them
            if ex:
                for k, (nm, lines) in enumerate(srcs):
                    r0 = run_joint(bdir, wd, "j", [(nm, lines)])
                    if norm_passes((r0[0], r0[1], r0[2], r0[3][0])) != norm_passes(sing[k]):
                        diffs.append("file %d: %d forced further pass(es) change the result" % (k, ex))
                        badfiles.add(k)
            evaluations += 1
            dist["histories"] += 1
            dist["probe_files"] += len(h)
            # observations for the driver
            for k, f in enumerate(h):
                jfail = jpbs[k] is None
                # stdout of file k in the joint run cannot be cut out exactly; use the diagnostics of the single run
                # when the joint output is the concatenation, else the whole joint output
                bn = os.path.basename(jpaths[k]).encode()
                jout = b"\n".join(l for l in (jso + jse).split(b"\n") if bn in l)
                jout = jout.replace(jpaths[k].encode(), b"<src>").replace(os.path.basename(jpaths[k]).encode(), b"<src>")
                sout = b"\n".join(l for l in (sing[k][1] + sing[k][2]).split(b"\n") if bn in l)
                sout = sout.replace(jpaths[k].encode(), b"<src>").replace(os.path.basename(jpaths[k]).encode(), b"<src>")
                robs = decode_obs(probes, f, jfail, jout, _payload(jpbs[k]), expect_cache, bdir, wd)
                aobs = decode_obs(probes, f, sing[k][3] is None, sout, _payload(sing[k][3]), expect_cache, bdir, wd)
                natural = 1 if any(op[0] == "p" and probes[op[1]].get("repass") for op in f["ops"]) else 0
                ftoks.append("%d/%s/%s/%s" % (f["extra"] + natural, ",".join(op_token(o, probes) for o in f["ops"]), robs, aobs))
                if jfail and k < len(h) - 1:
                    dist["predecessors_failing"] += 1
            req = "vars=%s files=%s" % (varsf, ";".join(ftoks))
            distinct.add(req.split(" files=")[1])
            reqs.append(req)
            metas.append((tag, h, srcs, diffs, sorted(badfiles)))
        answers = common.driver("c18", reqs, timeout=600) if drv_ok and reqs else []
        for (tag, h, srcs, diffs, badfiles), req, ans in zip(metas, reqs, answers):
            kv = dict(x.split("=", 1) for x in ans.split() if "=" in x)
            if len(samples) < 4 and (len(samples) < 2 or kv.get("spec") == "bad"):
                samples.append(dict(tag=tag, sources=srcs, request=req.split(" files=")[1], answer=ans))
            unres = [] if kv.get("unreset", "-") == "-" else [int(x) for x in kv["unreset"].split(",")]
            if "corr" not in kv:
                proof_problems.append("driver: bad answer `%s` for %s" % (ans[:100], tag))
                continue
            if kv["spec"] == "bad" or diffs:
                # signature: the un-reset variable that the history sets and probes (table), else the probed one
                probed = [op[1] for k, f in enumerate(h) if k in badfiles for op in f["ops"] if op[0] == "p"]
                cand = [i for i in unres if i in probed] or probed
                sigs = sorted({"assume-not-reset:%s:%s" % (probes[i]["file"], probes[i]["var"]) for i in cand}) or [None]
                for sg in sigs:
                    spec_fail.append(dict(tag=tag, sig=sg, why="a file's result in the joint run differs from its single run (files %s): %s %s" % (badfiles, diffs, ans),
                                          sources=srcs, extra_passes=h[0]["extra"], request=req))
                if ":x" in req or ",x" in req:
                    dist["undecodable_observations"] = dist.get("undecodable_observations", 0) + 1
                elif kv["corr"] != "eq":
                    corr_fail.append(dict(tag=tag, why="model (generated reset table) does not predict the real joint run", sources=srcs, request=req, answer=ans))
            elif kv["corr"] != "eq" and ":x" not in req and ",x" not in req:
                corr_fail.append(dict(tag=tag, why="model (generated reset table) does not predict the real joint run", sources=srcs, request=req, answer=ans))
            if kv.get("mspec") == "ok" and kv["spec"] == "bad" and kv["corr"] == "eq":
                proof_problems.append("model-internal: corr=eq but verdicts differ on " + tag)

        # ---------------- (C) differential part on the golden corpus
        alone = {}

        def single_of(t):
            rc, so, se, pbs = run_paths(bdir, wd, "a_" + t[0], [t[1]])
            return t[0], (rc, so, se, pbs[0])
        with concurrent.futures.ThreadPoolExecutor(4) as ex:
            for nm, r in ex.map(single_of, tests):
                alone[nm] = r
        tmap = {t[0]: t for t in tests}
        names = sorted(tmap)
        ok_names = [n for n in names if alone[n][0] in (0, 2)]
        jobs = []
        nrot = 6 if quick else 0
        if quick:
            offs = [1 + rng.randrange(len(ok_names) - 1) for _ in range(nrot)]
            for i, a in enumerate(ok_names):
                for o in offs:
                    jobs.append((a, ok_names[(i + o) % len(ok_names)]))
        else:
            for a in ok_names:
                for b in ok_names:
                    jobs.append((a, b))
        triples = []
        for _ in range(150 if quick else 3000):
            triples.append(tuple(rng.choice(ok_names) for _k in range(3)))

        jobs = list(dict.fromkeys(jobs))
        triples = list(dict.fromkeys(triples))
        jobno = {j: k for k, j in enumerate(jobs + triples)}

        def joint_of(job):
            r = run_paths(bdir, wd, "p%d" % jobno[job], [tmap[n][1] for n in job])
            return job, r
        pair_fail = {}
        with concurrent.futures.ThreadPoolExecutor(4) as ex:
            for job, r in ex.map(joint_of, jobs + triples):
                evaluations += 1
                if len(job) == 2:
                    dist["corpus_pairs"] += 1
                else:
                    dist["corpus_triples"] += 1
                d = compare_joint([alone[n] for n in job], r)
                if d:
                    pair_fail[job] = d
        for job, d in list(pair_fail.items())[:50]:
            # re-run once (time-dependent symbols) before reporting
            r = run_paths(bdir, wd, "re", [tmap[n][1] for n in job])
            s2 = [single_of(tmap[n])[1] for n in job]
            d2 = compare_joint(s2, r)
            if d2:
                sig = "corpus-history:" + "+".join(job)
                for k in range(len(job) - 1):
                    sig = attribute(bdir, wd, tmap[job[k]][1], tmap[job[k + 1]][1], alone[job[k + 1]], gens) or sig
                spec_fail.append(dict(tag="corpus:" + "+".join(job), sig=sig, why="golden sources influence each other: %s" % d2,
                                      command="asl -q -i /repo/include " + " ".join(tmap[n][1] for n in job)))
        distinct |= set("corpus:" + "+".join(j) for j in jobs + triples)

        # ---------------- generated failing / state-changing predecessors x successors
        succs = [(nm, lines) for nm, lines in CORE_SUCC]
        dist["generated_successors_failing_alone"] = [nm for nm, lines in succs if run_joint(bdir, wd, "g", [(nm, lines)])[0] != 0]
        gold_succ = [rng.choice(ok_names) for _ in range(4 if quick else 25)]
        single_cache = {}

        def gen_single(nm, lines, env=None):
            key = (nm, env and tuple(sorted(env.items())))
            if key not in single_cache:
                r = run_joint(bdir, wd, "g", [(nm, lines)], env=env)
                single_cache[key] = (r[0], r[1], r[2], r[3][0])
            return single_cache[key]
        for pn, plines in FAIL_PREDS:
            pl = ["\tcpu 6502"] + plines if not plines[0].startswith("\tcpu") else plines
            ps = gen_single(pn, pl)
            if ps[0] not in (0, 2):
                continue   # fatal / abnormal predecessor: outside the quantifier
            if ps[0] == 2:
                dist["predecessors_failing"] += 1
            for sn, sl in succs:
                r = run_joint(bdir, wd, "g", [(pn, pl), (sn, sl)])
                evaluations += 1
                dist["failing_pred_pairs"] += 1
                distinct.add("pred:%s+%s" % (pn, sn))
                d = compare_joint([ps, gen_single(sn, sl)], (r[0], r[1], r[2], r[3]))
                if d:
                    r = run_joint(bdir, wd, "g", [(pn, pl), (sn, sl)])
                    d = compare_joint([ps, gen_single(sn, sl)], (r[0], r[1], r[2], r[3]))
                if d:
                    spec_fail.append(dict(tag="pred:%s+%s" % (pn, sn), sig=PRED_SIGS.get(pn, "predecessor-state:" + pn), why="generated predecessor influences its successor: %s" % d,
                                          sources=[(pn, pl), (sn, sl)]))
            for gn in gold_succ:
                f = os.path.join(wd, "gp_%s.asm" % pn)
                open(f, "w").write("\n".join(pl) + "\n")
                r = run_paths(bdir, wd, "gp", [f, tmap[gn][1]])
                sp = run_paths(bdir, wd, "gps", [f])
                evaluations += 1
                dist["failing_pred_pairs"] += 1
                distinct.add("pred:%s+%s" % (pn, gn))
                d = compare_joint([(sp[0], sp[1], sp[2], sp[3][0]), alone[gn]], r)
                if d:
                    r = run_paths(bdir, wd, "gp2", [f, tmap[gn][1]])
                    d = compare_joint([(sp[0], sp[1], sp[2], sp[3][0]), single_of(tmap[gn])[1]], r)
                if d:
                    spec_fail.append(dict(tag="pred:%s+%s" % (pn, gn), sig=PRED_SIGS.get(pn, "predecessor-state:" + pn), why="generated predecessor influences a golden successor: %s" % d,
                                          sources=[(pn, pl)], successor=tmap[gn][1]))
            # the same tail under one forced further pass (state that survives into the next pass)
            body = ["\tcpu 6502", "\tbyt 10,$10", "\tbyt \"abc\"", "sq1\tstruct", "fq1\tdfs 2", "sq1\tendstruct", "\tbyt sq1_len"] + (["\tmessage \"\\{10}\""] if pn == "outradix" else [])
            tl = body + [l for l in plines]
            if not any(k in pn for k in ("open-", "error", "unknown", "warning")):
                r0 = gen_single("x_" + pn, tl)
                r1 = gen_single("x_" + pn, tl, env={"ASL_VERIF_EXTRA_PASSES": "1"})
                evaluations += 1
                dist["extra_pass_tails"] += 1
                distinct.add("tail:" + pn)
                if norm_passes(r0) != norm_passes(r1):
                    what = {"radix": "RadixBase", "outradix": "OutRadixBase", "dottedstructs": "DottedStructs"}.get(pn, pn)
                    spec_fail.append(dict(tag="tail:" + pn, sig=PRED_SIGS[pn] if pn.startswith("export") and pn in PRED_SIGS else "core-not-reset-per-pass:" + what,
                                          why="one forced further pass changes the result of a single file (state set by the last statements survives into the next pass)",
                                          source=tl, env="ASL_VERIF_EXTRA_PASSES=1", without=[r0[0], r0[1].decode(errors='replace'), _payload(r0[3])],
                                          with_extra_pass=[r1[0], r1[1].decode(errors='replace'), _payload(r1[3])]))

        # ---------------- every code generator as a bare predecessor (`cpu <name>` + one harmless statement) x the rich core successor
        rs = gen_single(*RICH_SUCC)
        dist["rich_successor_alone_rc"] = rs[0]
        dist["cpu_pred_pairs"] = 0
        seen_cpu = set()
        for g in gens:
            for nm in (list(g["cpuNames"]) + list(g["cpuCandidates"]))[: (1 if quick else 4)]:
                if nm in seen_cpu:
                    continue
                seen_cpu.add(nm)
                pl = ["\tcpu " + nm, "lcp:", "\tif 0", "\tendif"]
                ps = gen_single("cpu_" + re.sub(r"[^A-Za-z0-9]", "_", nm), pl)
                if ps[0] != 0:
                    continue
                r = run_joint(bdir, wd, "g", [("cpup", pl), RICH_SUCC])
                evaluations += 1
                dist["cpu_pred_pairs"] += 1
                distinct.add("cpupred:" + nm)
                d = compare_joint([ps, rs], (r[0], r[1], r[2], r[3]))
                if d:
                    spec_fail.append(dict(tag="cpupred:%s+succ-rich" % nm, sig="cpu-switch-leaves-core-hook:%s" % g["file"],
                                          why="selecting CPU %s in a predecessor changes the result of a later Z80 file: %s" % (nm, d),
                                          sources=[("cpup", pl), RICH_SUCC]))

        # ---------------- one setter per inventory variable x golden successors of the same target family
        setters = find_setters(bdir, wd, gens)
        cpu_idx = tests_by_cpu(tests)
        dist["inventory_vars"] = len(inv)
        dist["setters_found"] = len([s for s in setters if s["cpu"]])
        dist["setters_missing"] = ["%s:%s" % (s["file"], s["name"]) for s in setters if not s["cpu"]]
        for s in setters:
            if not s["cpu"]:
                continue
            fam = sorted({n for c in s["cpus"] for n in cpu_idx.get(c, ()) if n in ok_names})
            if not fam:
                continue
            # successors that select the very CPU the setter was accepted on come first (the variable is certainly live there)
            own = [n for n in fam if n in cpu_idx.get(s["cpu"].upper(), ())]
            fam = own + [n for n in fam if n not in own]
            f = os.path.join(wd, "set_%s.asm" % s["file"][:-2])
            open(f, "w").write("\n".join(s["lines"]) + "\n")
            sp = run_paths(bdir, wd, "sets", [f])
            for gn in fam[: (3 if quick else 12)]:
                r = run_paths(bdir, wd, "setj", [f, tmap[gn][1]])
                evaluations += 1
                dist["setter_pairs"] += 1
                distinct.add("setter:%s:%s+%s" % (s["file"], s["var"], gn))
                d = compare_joint([(sp[0], sp[1], sp[2], sp[3][0]), alone[gn]], r)
                if d:
                    spec_fail.append(dict(tag="setter:%s:%s+%s" % (s["file"], s["var"], gn), sig="assume-not-reset:%s:%s" % (s["file"], s["var"]),
                                          why="`%s` at the end of a predecessor changes the result of %s: %s" % (s["lines"][-1].strip(), gn, d),
                                          sources=[("a", s["lines"])], successor=tmap[gn][1]))
        dist["successors_failing"] = len([n for n in ok_names if alone[n][0] == 2])

        # ---------------- widened inventory: all persistent statics of the code generators (Props/C18_Statics.lean)
        from . import c18_statics
        import time as _time
        _t0 = _time.time()
        n_st, statics_ev = c18_statics.run(bdir, wd, args, rng, tests, alone, tmap, ok_names, cpu_idx, spec_fail, proof_problems, dist, distinct)
        evaluations += n_st
        dist["static_part_wall_s"] = round(_time.time() - _t0, 1)

        # ---------------- core / shared-helper state no per-file path resets: target description, pending relocation output, byte-order flag
        from . import c18_targetdesc
        _t0 = _time.time()
        n_td, targetdesc_ev = c18_targetdesc.run(bdir, wd, args, rng, spec_fail, corr_fail, proof_problems, dist, distinct, samples, drv_ok)
        evaluations += n_td
        dist["targetdesc_part_wall_s"] = round(_time.time() - _t0, 1)

        # ---------------- what a target selection / a pass leaves behind in the core: keyword occupation, temporary-symbol state (Props/C18_Carry.lean)
        from . import c18_carry
        import sys as _sys
        _t0 = _time.time()
        n_cy, carry_ev = c18_carry.run(_sys.modules[__name__], bdir, wd, args, common.rng_for(args.seed, "C18carry"), spec_fail, proof_problems, dist, distinct, samples)
        evaluations += n_cy
        dist["carry_part_wall_s"] = round(_time.time() - _t0, 1)

        # ---------------- invocation options that create per-file state / per-file outputs (error log, listing, map, share file, -Y bookkeeping ...)
        from . import c18_options
        _t0 = _time.time()
        n_op, options_ev = c18_options.run(bdir, wd, args, common.rng_for(args.seed, "C18opt"), spec_fail, corr_fail, proof_problems, dist, distinct, samples, drv_ok)
        evaluations += n_op
        dist["options_part_wall_s"] = round(_time.time() - _t0, 1)

    if os.environ.get("C18_DEBUG"):
        with open(os.environ["C18_DEBUG"], "w") as fh:
            json.dump(dict(spec=spec_fail, corr=corr_fail, proof=proof_problems), fh, indent=1, default=str)
    res.coverage = common.proof_coverage(audit, "C18", [
        "translate/globals.py (clang-14 JSON AST of every code*.c, as.c, asmallg.c, asmif.c, asmmac.c, asmstructs.c: ASSUMERec/AddONOFF/tCPUArg tables and the assignment sets of "
        "AddInitPassProc procedures, SwitchTo_*/SwitchFrom_*, AssembleFile_InitPass; syntactic may-assign, transitively through callees of the same file)",
        "hand-written classification CORE_CLASSES of 19 core variables",
        "translate/statics.py (clang-14 JSON AST of every code*.c: class scratch / config / persistent of every file-scope and function-static variable by a flow-sensitive "
        "written-before-read analysis with per-function summaries; reset flags as above) and the justified exception list of Props/C18_Statics.lean / c18_statics.py",
        "translate/targetdesc.py (clang-14 JSON AST of every code*.c: abstract interpretation of every function registered as CPU switch function - per path class the segments "
        "named in ValidSegs assignments and the elements of Grans/ListGrans/SegInits/SegLimits and the scalars assigned; dumper linked against the current build's objects: the description "
        "after `cpu <name>` for every CPU name, poisoned between the lines with two different values; the two routes are cross-checked) and the exception lists of "
        "Props/C18_TargetDesc.lean / c18_targetdesc.py",
        "translate/carry.py (clang-14 JSON AST of the 17 core modules and every code*.c: may-assign sets of every function, call graph across the core modules; reset closure = "
        "AssembleFile_InitPass with its direct callees, AsmSubPassInit, AsmErrPassInit, AssembleFile_ExitPass, AddInitPassProc procedures, the per-file initialisers, below them only "
        "functions whose name says Init/Reset/Clear/Free/Unset/SetCPU) and the exception lists of Props/C18_Carry.lean",
        "correspondence: real asl vs Model.TargetDesc (label values, error flag) and Model.SharedState (records with exports) on generated histories (differential test)",
        "correspondence: real asl vs Model.FileOut (error log handle, ErrorCount/WarnCount/JmpErrors, -Y/-maxerrors/-Werror, pass loop over a 6502 statement set) on generated "
        "histories under option sets (differential test); differential part under 42 option atoms: every per-file output of the joint run vs the stand-alone run",
        "correspondence: real asl vs Model.Files on probe histories (differential test); probes calibrated on the real binary each run",
        "differential part (labelled): golden-corpus pairs/triples and generated predecessors, `asl a b` vs `asl a`, `asl b`"])
    res.coverage.update(
        evaluations=evaluations, distinct_nontrivial=len(distinct),
        rule="one evaluation = one joint run `asl f1..fn` (n >= 2, or n = 1 with a forced further pass) compared file by file with the single runs; "
             "distinct by (ordered) file list / op list; non-trivial = at least two files or a forced pass",
        samples=samples, distribution=dist, inventory_not_reset=unreset_inv, statics=statics_ev, target_description=targetdesc_ev, options=options_ev, core_carry=carry_ev,
        core_vars_needing_per_pass_reset=[r["var"] for r in core_rows if r["cls"] == "perpass"])
    res.assumptions = ["the state of a code generator is its file-scope and function-static variables (Generated/GenStatics, all code*.c) plus what its ASSUMERec tables, AddONOFF calls, "
                       "tCPUArg tables and a pASSUMEOverride handler reach (Generated/GenState); statics of the shared *pseudo.c helpers are covered only by the differential histories",
                       "class `scratch` is decided syntactically: written before read on every path of one decoder invocation (rule `strong`), or - inside functions that are not statement "
                       "entry points - after a call that is certainly made and may write the variable (rule `call`: `DecodeAdr(...); if (AdrMode == ModX) use(AdrPart)`); "
                       "a value that is only read under a guard established in the same statement is not recognised and is listed as a justified exception",
                       "a syntactic assignment on the init path counts as a reset (not checked: that it is unconditional and assigns a constant)",
                       "target description: an element counts as assigned only with a constant / enumeration-constant / counting-loop index; the scalars checked are those SetCPUCore does not reset "
                       "itself; Grans/ListGrans of a segment are checked statically and by the dumper only (no behavioural history writes data into every segment of every target); "
                       "label values are observed through MESSAGE, targets whose code generator moves labels itself (probed: XA in CODE) get even addresses only",
                       "statics of shared helper modules other than asmcode.c PatchList/ExportList and motpseudo.c M16Turn are covered by the data-statement histories only (differential)",
                       "forced further passes use hook H1 (ASL_VERIF_EXTRA_PASSES)", "golden tests with non-empty asflags (9 of 201) are left out"]
    return common.conclude(res, proof_problems, spec_fail, corr_fail, evaluations)


def replay(args):
    d = json.load(open(args.replay))
    print(json.dumps({k: (v if len(str(v)) < 3000 else str(v)[:3000] + "...") for k, v in d.items()}, indent=1, default=str))
    bdir = common.repo_build("hooks")
    with common.Workdir("c18r") as wd:
        if "option_sources" in d:
            from . import c18_options
            c18_options.replay(bdir, wd, d)
            return 0
        env = None
        if d.get("extra_passes") or d.get("env"):
            env = {"ASL_VERIF_EXTRA_PASSES": str(d.get("extra_passes") or 1)}
        if "source" in d:
            for e in (None, env):
                r = run_joint(bdir, wd, "r", [("x", d["source"])], env=e)
                print("extra passes:", e, "rc", r[0], (r[1] + r[2]).decode(errors="replace")[-300:], _payload(r[3][0]))
        elif "sources" in d and "successor" not in d:
            srcs = [(n, l) for n, l in d["sources"]]
            r = run_joint(bdir, wd, "r", srcs, env=env)
            print("joint  rc", r[0], (r[1] + r[2]).decode(errors="replace")[-400:], [_payload(p) for p in r[3]])
            for n, l in srcs:
                s = run_joint(bdir, wd, "r", [(n, l)], env=env)
                print("single", n, "rc", s[0], (s[1] + s[2]).decode(errors="replace")[-300:], _payload(s[3][0]))
        elif "successor" in d:
            f = os.path.join(wd, "a.asm")
            open(f, "w").write("\n".join(d["sources"][0][1]) + "\n")
            r = run_paths(bdir, wd, "r", [f, d["successor"]])
            s = run_paths(bdir, wd, "s", [d["successor"]])
            print("joint rc", r[0], (r[1] + r[2]).decode(errors="replace")[-400:], "successor .p equal:", r[3][1] == s[3][0])
        elif "command" in d:
            print("run:", d["command"])
    return 0
