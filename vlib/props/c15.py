"""C15 - disassembling and re-assembling reproduces the original bytes (dasl: 4004/4040 and 6800/6802).

6800: besides the whole-program round trip, every known opcode x operand samples is checked instruction by instruction against the two
Lean models the theorems of Props/C15_6800.lean are about (driver mode c15_68, see batches68/run_batch68)."""
import json
import os
import re

from .. import common
from ..common import log
from . import c15_87c

# --------------------------------------------------------------------------
# ISA descriptions used by the generator (written from the CPU manuals' mnemonic lists; what the real asl makes of the
# source is the reference for the image, these tables only have to produce *valid* source)

FIX4004 = "nop wrm wmp wrr wpm wr0 wr1 wr2 wr3 sbm rdm rdr adm rd0 rd1 rd2 rd3 clb clc iac cmc cma ral rar tcc dac tcs stc daa kbp dcl".split()
FIX4040 = "hlt an6 an7 db0 db1 ein din rpm bbs lcr or4 or5 sb0 sb1".split()
REG4004 = "inc add sub ld xch".split()
PAIR4004 = "src fin jin".split()

INH68 = ("nop tap tpa inx dex clc sec cli sei sba cba tab tba daa aba tsx ins pula pulb psha pshb wai swi nega coma lsra rora "
         "asra asla rola deca inca tsta clra negb comb lsrb rorb asrb aslb rolb decb incb tstb clrb clv sev txs").split()
REL68 = "bhi bls bcc bcs bne beq bvc bvs bpl bmi bge blt bgt ble bsr".split()
SING68 = "neg com lsr ror asr asl rol dec inc tst clr".split()
ALU68 = "suba cmpa sbca anda bita ldaa eora adca oraa adda subb cmpb sbcb andb bitb ldab eorb adcb orab addb".split()
ST68 = "staa stab".split()
ALU16 = "cpx lds ldx".split()
ST16 = "sts stx".split()


# --------------------------------------------------------------------------
# order of the ORG blocks in the source / of the records in the hex file
#
# The generators lay a program out in ascending addresses.  All labels are absolute (L<address>) and every statement has a fixed
# size, so the source can be cut at every block start and at every `org` and the pieces written in ANY order, each behind its own
# `org`: the memory image stays the same, the order of the records in the code file - and therefore in p2hex's output, which keeps
# it - changes.  dasl's `-hexfile` has to build the same image from every such file.

BLOCK_MARK = ";@blk "       # comment line the generators put at every block start: `;@blk <address>`
SEG_ORG_RE = re.compile(r"^\s*org\s+(\S+)\s*$", re.I)
SRC_ORDERS = ("ascending", "descending", "shuffled", "interleaved", "rotated", "one-displaced")


def _num(tok):
    t = tok.lower()
    if t.startswith("$"):
        return int(t[1:], 16)
    if t.endswith("h"):
        return int(t[:-1], 16)
    return int(t)


def source_segments(src):
    """(cpu line, [(address, [lines])]): the source cut at every `org` line and at every block marker (empty pieces dropped)"""
    lines = src.rstrip("\n").split("\n")
    segs, cur = [], None
    for l in lines[1:]:
        m = SEG_ORG_RE.match(l)
        if m:
            cur = (_num(m.group(1)), [])
            segs.append(cur)
        elif l.startswith(BLOCK_MARK):
            cur = (int(l[len(BLOCK_MARK):]), [])
            segs.append(cur)
        else:
            cur[1].append(l)
    return lines[0], [sg for sg in segs if sg[1]]


def permute(rng, xs, order):
    """the list in one of the orders of SRC_ORDERS"""
    xs = list(xs)
    if order == "descending":
        xs.reverse()
    elif order == "shuffled":
        rng.shuffle(xs)
    elif order == "interleaved":
        xs = xs[0::2] + xs[1::2] if rng.random() < 0.5 else xs[1::2] + xs[0::2]
    elif order == "rotated" and len(xs) > 1:
        k = rng.randrange(1, len(xs))
        xs = xs[k:] + xs[:k]
    elif order == "one-displaced" and len(xs) > 1:
        x = xs.pop(rng.randrange(len(xs)))
        xs.insert(rng.randrange(len(xs) + 1), x)
    return xs


def reorder_source(rng, case, order):
    """the same program with its ORG blocks written in another order (in place; the order is recorded in case['src_order'])"""
    head, segs = source_segments(case["source"])
    case["src_order"] = "ascending"
    if order == "ascending" or len(segs) < 2:
        return case
    segs2 = permute(rng, segs, order)
    if [a for a, _ in segs2] == [a for a, _ in segs]:
        return case
    out = [head]
    for a, ls in segs2:
        out.append("\torg %d" % a)
        out += ls
    case["source"] = "\n".join(out) + "\n"
    case["src_order"] = order
    case["feats"] = set(case["feats"]) | {"org-order-" + order}
    return case


def pick_src_order(rng):
    return "ascending" if rng.random() < 0.4 else rng.choice(SRC_ORDERS[1:])


def pick_load(rng):
    return rng.choice(["bin", "bin", "hex", "hex", "hex", "hexhand"])


def ihex_record(addr, data, typ=0):
    body = bytes([len(data), (addr >> 8) & 255, addr & 255, typ]) + bytes(data)
    return ":" + (body + bytes([(-sum(body)) & 255])).hex().upper()


def handmade_ihex(rng, mem):
    """an Intel-hex file (text, shape) for the memory [(start, bytes)], written by the harness instead of p2hex: record length,
    record order and the additional records are random; every byte of the memory is in exactly one data record"""
    flat = {}
    for st, d in mem:
        for i, x in enumerate(d):
            flat[st + i] = x
    runs = []
    for a in sorted(flat):
        if runs and runs[-1][0] + len(runs[-1][1]) == a:
            runs[-1][1].append(flat[a])
        else:
            runs.append((a, [flat[a]]))
    maxlen = rng.choice([1, 2, 3, 7, 16, 16, 16, 32, 64])
    per_run = []
    for st, d in runs:
        recs, i = [], 0
        while i < len(d):
            n = maxlen if rng.random() < 0.6 else rng.randrange(1, maxlen + 1)
            recs.append((st + i, d[i:i + n]))
            i += n
        per_run.append(recs)
    shape = rng.choice(["ascending", "runs-descending", "runs-shuffled", "runs-interleaved", "descending", "shuffled", "interleaved", "one-displaced"])
    if shape.startswith("runs-"):
        # whole address runs change places, the records of a run stay in ascending order (what p2hex writes for re-ordered ORG blocks)
        recs = [r for run in permute(rng, per_run, shape[5:]) for r in run]
    else:
        recs = permute(rng, [r for run in per_run for r in run], shape)
    lines = [ihex_record(a, d) for a, d in recs]
    extras = []
    if rng.random() < 0.2:
        # empty data records (allowed by the format, they carry no byte)
        for _ in range(rng.randrange(1, 3)):
            lines.insert(rng.randrange(len(lines) + 1), ihex_record(rng.choice([0, recs[0][0], recs[-1][0] + 1, rng.randrange(0x10000)]), b""))
        extras.append("empty-records")
    if rng.random() < 0.2:
        # start address records (03: CS:IP, 05: linear) and base records with value 0: no memory content
        ent = recs[0][0]
        lines.insert(rng.randrange(len(lines) + 1), rng.choice([ihex_record(0, bytes([0, 0, ent >> 8, ent & 255]), 3),
                                                                ihex_record(0, bytes([0, 0, ent >> 8, ent & 255]), 5),
                                                                ihex_record(0, bytes([0, 0]), 2), ihex_record(0, bytes([0, 0]), 4)]))
        extras.append("other-record-types")
    lines.append(ihex_record(0, b"", 1))
    return "\n".join(lines) + "\n", shape, extras


def ihex_data_records(text):
    out = []
    for line in text.split("\n"):
        line = line.strip()
        if not line.startswith(":"):
            continue
        b = bytes.fromhex(line[1:])
        if b[3] == 0:
            out.append(((b[1] << 8) | b[2], b[4:4 + b[0]]))
    return out


def ihex_ascending(text):
    """no data record starts below the end of the record before it"""
    end = 0
    for a, d in ihex_data_records(text):
        if a < end:
            return False
        end = a + len(d)
    return True


def split_instruction(chunks_, listing):
    """address of a listing line whose bytes lie in two adjacent chunks of the loaded image (records that were not joined while
    loading: the class of inputs on which RetrieveCodeFromChunkList has to continue a request in the next chunk; counted in the
    evidence), or None"""
    sp = split_lines(chunks_, listing)
    return min(sp) if sp else None


def split_lines(chunks_, listing):
    """addresses of all listing lines whose bytes lie in two adjacent chunks of the loaded image"""
    ends = {st + len(d) for st, d in chunks_ if len(d)}
    seams = {st for st, d in chunks_ if len(d) and st in ends}
    return {a for a, (_t, n) in listing.items() if any(a < b < a + n for b in seams)}


def _i(kind, size, text=None, **kw):
    d = dict(kind=kind, size=size, text=text)
    d.update(kw)
    return d


def gen_items_4004(rng, nblocks, feats):
    items = []
    for b in range(nblocks):
        items.append(_i("blockstart", 0))
        for _ in range(rng.randrange(1, 14)):
            r = rng.random()
            if r < 0.30:
                items.append(_i("plain", 1, "\t%s" % rng.choice(FIX4004)))
            elif r < 0.36:
                items.append(_i("plain", 1, "\t%s" % rng.choice(FIX4040)))
            elif r < 0.50:
                items.append(_i("plain", 1, "\t%s r%d" % (rng.choice(REG4004), rng.choice([0, 1, 7, 8, 9, 10, 15, rng.randrange(16)]))))
            elif r < 0.58:
                m = rng.choice(PAIR4004)
                items.append(_i("plain", 1, "\t%s r%dp" % (m, rng.randrange(8))))
                if m == "jin":   # dasl keeps tracing after JIN: never let data follow it
                    items.append(_i("plain", 1, "\tnop"))
            elif r < 0.64:
                items.append(_i("plain", 1, "\tldm %d" % rng.choice([0, 1, 9, 10, 15, rng.randrange(16)])))
            elif r < 0.74:
                items.append(_i("plain", 2, "\tfim r%dp,%d" % (rng.randrange(8), rng.choice([0, 1, 9, 0x7f, 0x80, 0x9f, 0xa0, 0xff, rng.randrange(256)]))))
            elif r < 0.82:
                items.append(_i("jcn", 2, cond=rng.randrange(16)))
            elif r < 0.90:
                items.append(_i("isz", 2, reg=rng.randrange(16)))
            else:
                items.append(_i("jms", 2))
        # terminal instruction of the block
        if rng.random() < 0.6:
            items.append(_i("jun", 2))
        else:
            items.append(_i("plain", 1, "\tbbl %d" % rng.randrange(16)))
        if rng.random() < 0.45:
            n = rng.randrange(1, 5)
            items.append(_i("data", n, "\tdata %s" % ",".join(str(rng.randrange(256)) for _ in range(n))))
            feats.add("embedded-data")
        if rng.random() < 0.3:
            items.append(_i("gap", rng.randrange(3, 40)))
            feats.add("gap")
    return items


def cond_text(c):
    return "".join(ch for bit, ch in ((1, "t"), (2, "c"), (4, "z"), (8, "n")) if c & bit) or "0"


def layout_4004(rng, items, start, feats, allow_isz_fe):
    addr = start
    for it in items:
        it["addr"] = addr
        addr += it["size"]
    targets = [it for it in items if it["kind"] in ("plain", "jcn", "isz", "jms", "jun", "blockstart")]
    starts = [it["addr"] for it in targets]
    lines = []
    used = set()

    def pick(page=None):
        c = [a for a in starts if page is None or (a >> 8) == page]
        if not c:
            return None
        a = rng.choice(c)
        used.add(a)
        return a

    for it in items:
        k = it["kind"]
        if k in ("jun", "jms"):
            it["text"] = "\t%s L%04X" % (k, pick())
        elif k == "jcn":
            # the target lies in the page of PC+2; for a JCN at xFE/xFF that is the following page, i.e. a forward label
            t = pick((it["addr"] + 2) >> 8)
            if t is None:
                it["text"] = "\tfim r1p,%d" % rng.randrange(256)
            else:
                it["text"] = "\tjcn %s,L%04X" % (cond_text(it["cond"]), t)
                if (it["addr"] & 0xff) >= 0xfe:
                    feats.add("jcn-at-page-end")
                    if rng.random() < 0.5:
                        # the same instruction with the target as a number: the source then does not depend on how asl treats the
                        # forward label, only the listing dasl makes of the image does (it always prints a label)
                        it["text"] = "\tjcn %s,%d" % (cond_text(it["cond"]), t)
                        feats.add("jcn-at-page-end-numeric")
        elif k == "isz":
            # the page of PC+2, as for JCN (since the repair of DecodeISZ; for an ISZ at xFE that is the following page)
            at_fe = (it["addr"] & 0xff) == 0xfe
            t = pick((it["addr"] + 2) >> 8)
            if t is None:
                it["text"] = "\tfim r2p,%d" % rng.randrange(256)
            else:
                it["text"] = "\tisz r%d,L%04X" % (it["reg"], t)
                if at_fe:
                    feats.add("isz-at-xFE")
    for it in items:
        k = it["kind"]
        if k == "gap":
            lines.append("\torg %d" % (it["addr"] + it["size"]))
            continue
        if k == "blockstart":
            lines.append(BLOCK_MARK + str(it["addr"]))
            continue
        lab = "L%04X:" % it["addr"] if it["addr"] in used and k != "data" else ""
        if lab and lab in lines_labels(lines):
            lab = ""
        lines.append(lab + it["text"])
    return lines, used, addr


def lines_labels(lines):
    return {l.split("\t")[0] for l in lines if l and not l.startswith("\t")}


def gen_4004(rng, feature=None):
    feats = set()
    nblocks = rng.randrange(1, 9) if feature != "isz-fe" else 30
    items = gen_items_4004(rng, nblocks, feats)
    start = rng.choice([0, 0x10, 0xf0, 0x1e0, 0x2fd, 0x7f0, 0xd00, 0xe80])
    if feature == "isz-fe":
        # force an ISZ to sit at xFE: its target lies in the following page
        start = 0x1f0
        items = [_i("blockstart", 0)] + [_i("plain", 1, "\tnop") for _ in range(14)] + [_i("isz", 2, reg=rng.randrange(16)), _i("plain", 1, "\tnop"), _i("plain", 1, "\tbbl 1")]
    if feature == "jcn-fe":
        # a JCN in the last two bytes of a page: its target (page of PC+2) is a label in the following page, a forward reference
        page = rng.randrange(1, 14)
        ofs = rng.choice([0xfe, 0xff])
        start = (page << 8) + ofs - rng.randrange(0, 12)
        items = ([_i("blockstart", 0)] + [_i("plain", 1, "\tnop") for _ in range((page << 8) + ofs - start)] + [_i("jcn", 2, cond=rng.randrange(1, 16))] +
                 [_i("plain", 1, "\t%s" % rng.choice(FIX4004)) for _ in range(rng.randrange(1, 6))] + [_i("plain", 1, "\tbbl 1")])
    lines, used, end = layout_4004(rng, items, start, feats, feature == "isz-fe")
    if end >= 0xff0:
        return gen_4004(rng, feature)
    bstarts = [it["addr"] for it in items if it["kind"] == "blockstart"]
    entries = [bstarts[0]] + [a for a in rng.sample(bstarts, min(len(bstarts), rng.randrange(0, 4))) if a != bstarts[0]]
    src = "\tcpu 4040\n\torg %d\n" % start + "\n".join(lines) + "\n"
    return dict(cpu="4004", asmcpu="4040", source=src, entries=[("d", a) for a in dict.fromkeys(entries)], feats=feats)


def gen_6800(rng, feature=None):
    feats = set()
    items = []
    nblocks = rng.randrange(1, 9)
    for b in range(nblocks):
        items.append(_i("blockstart", 0))
        for _ in range(rng.randrange(1, 14)):
            r = rng.random()
            imm8 = rng.choice([0, 1, 0x7f, 0x80, 0xff, rng.randrange(256)])
            dirv = rng.choice([0, 1, 0x7f, 0x80, 0xff, rng.randrange(256)])
            extv = rng.choice([0x100, 0x1ff, 0x8000, 0xffff, rng.randrange(0x100, 0x10000)])
            if rng.random() < 0.12:
                # extended mode with an address in page 0 (written with `>`; dasl has to print it that way as well)
                extv = rng.choice([0, 1, 0x7f, 0x80, 0xff, rng.randrange(256)])
                feats.add("ext-zp")
            if r < 0.22:
                items.append(_i("plain", 1, "\t%s" % rng.choice(INH68)))
            elif r < 0.36:
                items.append(_i("rel", 2, m=rng.choice(REL68)))
            elif r < 0.50:
                m = rng.choice(SING68)
                if rng.random() < 0.5:
                    items.append(_i("plain", 2, "\t%s %d,x" % (m, dirv)))
                else:
                    items.append(_i("plain", 3, "\t%s %s$%04x" % (m, ">" if extv < 0x100 else "", extv)))
            elif r < 0.78:
                m = rng.choice(ALU68 + ST68)
                mode = rng.choice(["imm", "dir", "idx", "ext"] if m not in ST68 else ["dir", "idx", "ext"])
                if mode == "imm":
                    items.append(_i("plain", 2, "\t%s #$%02x" % (m, imm8)))
                elif mode == "dir":
                    items.append(_i("plain", 2, "\t%s $%02x" % (m, dirv)))
                elif mode == "idx":
                    items.append(_i("plain", 2, "\t%s $%02x,x" % (m, dirv)))
                else:
                    items.append(_i("plain", 3, "\t%s %s$%04x" % (m, ">" if extv < 0x100 else "", extv)))
            elif r < 0.92:
                m = rng.choice(ALU16 + ST16)
                mode = rng.choice(["imm", "dir", "idx", "ext"] if m not in ST16 else ["dir", "idx", "ext"])
                if mode == "imm":
                    items.append(_i("plain", 3, "\t%s #$%04x" % (m, rng.choice([0, 1, 0xff, 0x100, 0xffff, rng.randrange(65536)]))))
                elif mode == "dir":
                    items.append(_i("plain", 2, "\t%s $%02x" % (m, dirv)))
                elif mode == "idx":
                    items.append(_i("plain", 2, "\t%s $%02x,x" % (m, dirv)))
                else:
                    items.append(_i("plain", 3, "\t%s %s$%04x" % (m, ">" if extv < 0x100 else "", extv)))
            elif r < 0.96:
                items.append(_i("jsr", 3))
            else:
                items.append(_i("plain", 2, "\tjsr %d,x" % dirv))
        if feature == "des" and b == 0:
            items.append(_i("plain", 1, "\tdes"))
            feats.add("des")
        if feature == "ext-zp" and b == 0:
            items.append(_i("plain", 3, "\tldaa >$%04x" % rng.randrange(256)))
            feats.add("ext-zp")
        t = rng.random()
        if t < 0.35:
            items.append(_i("rel", 2, m="bra"))
        elif t < 0.6:
            items.append(_i("jmp", 3))
        elif t < 0.8:
            items.append(_i("plain", 1, "\trts"))
        elif t < 0.9:
            items.append(_i("plain", 1, "\trti"))
        else:
            items.append(_i("plain", 2, "\tjmp %d,x" % rng.randrange(256)))
        if rng.random() < 0.45:
            n = rng.randrange(1, 5)
            items.append(_i("data", n, "\tbyt %s" % ",".join(str(rng.randrange(256)) for _ in range(n))))
            feats.add("embedded-data")
        if rng.random() < 0.3:
            items.append(_i("gap", rng.randrange(3, 40)))
            feats.add("gap")
    start = rng.choice([0x100, 0x1000, 0x7ff0, 0x8000, 0xc000, 0xe000, 0xf800])
    addr = start
    for it in items:
        it["addr"] = addr
        addr += it["size"]
    starts = [it["addr"] for it in items if it["kind"] not in ("data", "gap")]
    bstarts = [it["addr"] for it in items if it["kind"] == "blockstart"]
    used = set()
    for it in items:
        k = it["kind"]
        if k in ("jsr", "jmp"):
            t = rng.choice(starts)
            used.add(t)
            it["text"] = "\t%s L%04X" % (k, t)
        elif k == "rel":
            c = [a for a in starts if -128 <= a - (it["addr"] + 2) <= 127]
            if c:
                t = rng.choice(c)
                used.add(t)
                it["text"] = "\t%s L%04X" % (it["m"], t)
            else:
                it["text"] = "\tbra *" if it["m"] == "bra" else "\tldaa #1"
    vec = []
    if feature == "vector":
        vaddr = addr + rng.randrange(2, 20)
        tg = [rng.choice(bstarts) for _ in range(rng.randrange(1, 3))]
        for t in tg:
            used.add(t)
        vec = [("v", vaddr + 2 * i, 2, "M") for i in range(len(tg))]
        feats.add("vector")
    lines = []
    seen = set()
    for it in items:
        k = it["kind"]
        if k == "gap":
            lines.append("\torg %d" % (it["addr"] + it["size"]))
            continue
        if k == "blockstart":
            lines.append(BLOCK_MARK + str(it["addr"]))
            continue
        lab = ""
        if it["addr"] in used and k != "data" and it["addr"] not in seen:
            lab = "L%04X:" % it["addr"]
            seen.add(it["addr"])
        lines.append(lab + it["text"])
    if vec:
        lines.append("\torg %d" % vec[0][1])
        lines.append("\tadr %s" % ",".join("L%04X" % t for t in tg))
    if vec:
        entries = vec + [("d", a) for a in rng.sample(bstarts, min(len(bstarts), rng.randrange(0, 3)))]
    else:
        entries = [("d", bstarts[0])] + [("d", a) for a in rng.sample(bstarts, min(len(bstarts), rng.randrange(0, 4))) if a != bstarts[0]]
    src = "\tcpu 6800\n\torg %d\n" % start + "\n".join(lines) + "\n"
    return dict(cpu="6800", asmcpu="6800", source=src, entries=list(dict.fromkeys(entries)), feats=feats)


# --------------------------------------------------------------------------
# running the real tools

def mem_of_pfile(path):
    """[(start, bytes)] of a code file's CODE records, in file order (harness plumbing)"""
    recs = common.parse_pfile_py(open(path, "rb").read())
    if recs is None:
        return None
    return [(r[4], bytes(r[5])) for r in recs if r[0] == "D" and len(r[5])]


def chunks_of_ihex(text):
    """chunks as `-hexfile` builds them: a data record is joined to the chunk being collected when it starts at its end
    (harness plumbing: the image the checks use comes from the Lean driver, see Driver/C15.lean `hex:`)"""
    out = []
    cur = (0, b"")
    for a, d in ihex_data_records(text):
        if cur[0] + len(cur[1]) == a:
            cur = (cur[0], cur[1] + d)
        else:
            if cur[1]:
                out.append(cur)
            cur = (a, d)
    if cur[1]:
        out.append(cur)
    return sorted(out, key=lambda c: c[0])


def asm(bdir, wd, name, text, cpu=None):
    f = os.path.join(wd, name + ".asm")
    open(f, "wb").write(text if isinstance(text, bytes) else text.encode("latin-1"))
    pf = os.path.join(wd, name + ".p")
    if os.path.exists(pf):
        os.unlink(pf)
    args = ["-q"] + (["-cpu", cpu] if cpu else []) + [f, "-o", pf]
    rc, so, se = common.run_tool(bdir, "asl", args, wd, timeout=60)
    if rc != 0 or not os.path.exists(pf):
        return None, (so + se).decode(errors="replace")
    return mem_of_pfile(pf), ""


ORG_RE = re.compile(rb"^(\s*org\s+)\$([0-9A-Fa-f]+)\s*$", re.M)
IND_RE = re.compile(rb"^indirect address @ [^\n]*\n", re.M)


def make_hexfile(bdir, wd, base, pf, mem, load, case):
    """the Intel-hex file of a case: written by p2hex (`hex`), by the harness (`hexhand`: case['hexhand_rng'] or the stored
    case['hexfile_text']).  -> (path, image token for the driver, info, error)"""
    hf = os.path.join(wd, base + ".hex")
    info = {}
    if load == "hexhand":
        if case.get("hexfile_text"):
            text, info["hex_shape"], info["hex_extras"] = case["hexfile_text"], case.get("hex_shape", "stored"), case.get("hex_extras", [])
        else:
            text, info["hex_shape"], info["hex_extras"] = handmade_ihex(case["hexhand_rng"], mem)
        open(hf, "w").write(text)
    else:
        rc, so, se = common.run_tool(bdir, "p2hex", [pf, hf, "-F", "Intel", "-q"], wd)
        if rc != 0:
            return None, None, None, "p2hex failed: %s" % (so + se)[-200:]
        text = open(hf).read()
        info["hex_shape"] = "p2hex"
    info["hexfile_text"] = text
    info["hex_ascending"] = ihex_ascending(text)
    info["hex_chunks"] = [(a, len(d)) for a, d in chunks_of_ihex(text)]
    return hf, "hex:" + text.encode("latin-1").hex(), info, None


def run_case(bdir, wd, idx, case, load, lower):
    """returns dict(req=driver request, info=...) or dict(skip=reason)"""
    base = "c%d" % idx
    mem, err = asm(bdir, wd, base, case["source"])
    if mem is None:
        return dict(genfail="generator produced source asl rejects: " + err[-300:])
    pf = os.path.join(wd, base + ".p")
    hexinfo = {}
    if load == "bin":
        bf = os.path.join(wd, base + ".bin")
        rc, so, se = common.run_tool(bdir, "p2bin", [pf, bf, "-q"], wd)
        if rc != 0:
            return dict(genfail="p2bin failed: %s" % (so + se)[-200:])
        start = min(m[0] for m in mem)
        image = [(start, open(bf, "rb").read())]
        loadargs = ["-binfile", "%s@%d" % (bf, start)]
    else:
        hf, image, hexinfo, err = make_hexfile(bdir, wd, base, pf, mem, load, case)
        if hf is None:
            return dict(genfail=err)
        loadargs = ["-hexfile", hf]
    eargs = []
    etoks = []
    for e in case["entries"]:
        if e[0] == "d":
            eargs += ["-entryaddress", str(e[1])]
            etoks.append("d:%d" % e[1])
        else:
            eargs += ["-entryaddress", "(%d,%d,%s)" % (e[1], e[2], "MSB" if e[3] == "M" else "LSB")]
            etoks.append("v:%d:%d:%s" % (e[1], e[2], e[3]))
    args = (["-h"] if lower else []) + ["-cpu", case["cpu"]] + loadargs + eargs
    rc, so, se = common.run_tool(bdir, "dasl", args, wd, timeout=30)
    info = dict(dasl_args=[os.path.basename(a) if os.path.isabs(a) else a for a in args], dasl_rc=rc, source=case["source"], load=load,
                src_order=case.get("src_order", "ascending"),
                feats=sorted(case["feats"]), dasl_stdout=so.decode("latin-1")[:6000], dasl_stderr=se.decode("latin-1")[:600], **hexinfo)
    if rc == "timeout" or (isinstance(rc, int) and rc < 0):
        return dict(crash="dasl status %s" % rc, info=info)
    # ---- round trip: dasl's stdout, unchanged, to the real assembler
    re1, err1 = asm(bdir, wd, base + "_r", so, case["asmcpu"])
    info["reasm_unchanged"] = "ok" if re1 is not None else "rejected: " + err1[-300:]
    rewrites = []
    re2 = re1
    if re1 is None:
        # labelled harness rewrites, so that the rest of the disassembly is still checked
        txt = so
        if IND_RE.search(txt):
            txt = IND_RE.sub(b"", txt)
            rewrites.append("indirect-line-removed")
        if case["cpu"] == "4004" and ORG_RE.search(txt):
            txt = ORG_RE.sub(lambda m: m.group(1) + b"0" + m.group(2) + b"h", txt)
            rewrites.append("org-intel-syntax")
        if rewrites:
            re2, err2 = asm(bdir, wd, base + "_r2", txt, case["asmcpu"])
            info["reasm_rewritten"] = "ok" if re2 is not None else "rejected: " + err2[-300:]
    info["rewrites"] = rewrites

    def chunks(cs):
        return "%d %s" % (len(cs), " ".join("%d %s" % (a, bytes(d).hex() or "-") for a, d in cs)) if cs else "0"
    if hexinfo:
        # an instruction of the listing that lies in two adjacent chunks of the image (records that were not joined while loading)
        from .c15_87c import parse_listing
        info["split_instruction"] = split_instruction(chunks_of_ihex(hexinfo["hexfile_text"]), parse_listing(so))
    req = "%s %d %s %d %s %d %s %s %s" % (
        case["cpu"], 1 if lower else 0, image if isinstance(image, str) else chunks(image), len(etoks), " ".join(etoks), rc if isinstance(rc, int) else 99,
        so.hex() or "-", se.hex() or "-", ("none" if re2 is None else chunks(re2)))
    return dict(req=req, info=info, unchanged_ok=re1 is not None, rewritten_ok=re2 is not None, rewrites=rewrites)


# --------------------------------------------------------------------------
def sweep_cases(bdir):
    """one tiny image per opcode the disassembler knows (types from the translator's dump of OpcodeList), byte level"""
    from translate import tables
    out = []
    for cpu, cfile, types, asmcpu in (("4004", "deco4004.c", tables.DECO4004_TYPES, "4040"), ("6800", "deco68.c", tables.DECO68_TYPES, "6800")):
        try:
            rows, _d = tables._deco_dump(bdir, cfile, types)
        except tables.ExtractError:
            continue
        for op, r in enumerate(rows):
            if r[0] == "eUnknown":
                continue
            if cpu == "4004":
                start = ((op & 15) << 8) + 0x10
                nops = 1 if r[0] in ("eFullAddr", "eJumpCond", "eISZ", "eFIM") else 0
                # operand 0x14 = address of a BBL inside the image (same page)
                img = bytes([op] + [0x14] * nops + [0xc0] * (6 - nops))
            else:
                start = 0x1000
                nops = {"eImplicit": 0, "eDirect": 1, "eIndexed": 1, "eRelative": 1, "eExtended": 2, "eImmediate": 1 + r[1]}[r[0]]
                opnd = [0x02] if r[0] == "eRelative" else [0x10, 0x05][:nops]
                img = bytes([op] + opnd + [0x39] * (7 - nops))
            out.append(dict(cpu=cpu, asmcpu=asmcpu, op=op, start=start, img=img, memo=bytes.fromhex(r[3]).decode()))
            if cpu == "4004" and r[0] in ("eJumpCond", "eISZ") and (op & 15) in (0, 1, 4, 7, 12):
                # the page-relative forms in the last two words of a ROM page: the target page is that of the following
                # instruction, i.e. the next page; operand 3 = a BBL of the image in that page
                for ofs in (0xfd, 0xfe, 0xff):
                    st = ((op & 7) << 8) + ofs
                    out.append(dict(cpu=cpu, asmcpu=asmcpu, op=op, start=st, img=bytes([op, 0xff if ofs == 0xfd else 0x03] + [0xc0] * 7),
                                    memo=bytes.fromhex(r[3]).decode() + "@%02X" % ofs, pageend=ofs))
    return out


def run_sweep_case(bdir, wd, sc):
    bf = os.path.join(wd, "sw.bin")
    open(bf, "wb").write(sc["img"])
    args = ["-cpu", sc["cpu"], "-binfile", "%s@%d" % (bf, sc["start"]), "-entryaddress", str(sc["start"])]
    rc, so, se = common.run_tool(bdir, "dasl", args, wd, timeout=30)
    re1, err1 = asm(bdir, wd, "sw_r", so, sc["asmcpu"])
    rew = []
    if re1 is None and sc["cpu"] == "4004":
        re1, err1 = asm(bdir, wd, "sw_r2", ORG_RE.sub(lambda m: m.group(1) + b"0" + m.group(2) + b"h", so), sc["asmcpu"])
        rew = ["org-intel-syntax"]
    img = [(sc["start"], sc["img"])]

    def chunks(cs):
        return "%d %s" % (len(cs), " ".join("%d %s" % (a, bytes(d).hex()) for a, d in cs))
    req = "%s 0 %s 1 d:%d %d %s %s %s" % (sc["cpu"], chunks(img), sc["start"], rc if isinstance(rc, int) else 99, so.hex() or "-", se.hex() or "-",
                                          "none" if re1 is None else chunks(re1))
    return dict(req=req, reasm_ok=re1 is not None, err=err1, rewrites=rew, stdout=so.decode("latin-1"))


# --------------------------------------------------------------------------
# 6800: every opcode x operand samples, instruction by instruction (driver mode c15_68)

LINE68_RE = re.compile(rb"^(?:[A-Za-z_][A-Za-z0-9_]*:)?\t+([^\t;][^\t]*(?:\t[^\t;][^\t]*)?)\t+;((?: [0-9A-Fa-f]{2})+)\s*$")
ORG68_RE = re.compile(rb"^\s*org\s+(?:\$([0-9A-Fa-f]+)|([0-9]+))\s*$")     # `$hex` before, decimal since the repair of das.c
LABEL68_RE = re.compile(r"\b((?:lab|sub)_([0-9A-Fa-f]{4}))\b")
ASLERR_RE = re.compile(r"\((\d+)\)(?::\d+)?\s*:\s*error")


def samples68(rng, typ, opsize, tier):
    """operand byte strings for one row of OpcodeList (boundary values, addresses inside the batches, random)"""
    if typ == "eImplicit":
        return [b""]
    nb = {"eDirect": 1, "eIndexed": 1, "eRelative": 1, "eExtended": 2, "eImmediate": 1 + opsize}[typ]
    if nb == 1:
        pool = [bytes([c]) for c in (0x00, 0x01, 0x10, 0x7f, 0x80, 0xfe, 0xff)]
        rnd = [bytes([rng.randrange(256)]) for _ in range(8)]
    else:
        cand = [0x0000, 0x0034, 0x00ff, 0x0100, 0x1234, 0x7fff, 0x8000, 0xffff, 0x0008, 0x1004, 0x1010, 0xfff0, 0xfffc]
        pool = [bytes([c >> 8, c & 255]) for c in cand]
        rnd = [bytes([rng.randrange(256), rng.randrange(256)]) for _ in range(8)]
    if tier == "quick":
        return rng.sample(pool, 2) + rnd[:1]
    return pool + rnd


def batches68(bdir, rng, tier):
    """[(base, lower, [(addr, bytes)])]: instructions on a 4-byte raster (filler: rts), every one an entry address.
    quick: one batch at $1000 and one that ends at $FFFF (with -h); thorough: also page zero and $8000."""
    from translate import tables
    rows, _d = tables._deco_dump(bdir, "deco68.c", tables.DECO68_TYPES)
    known = [(op, r) for op, r in enumerate(rows) if r[0] != "eUnknown"]
    plans = [(0x1000, False), (None, True)] + ([(0x0000, False), (0x8000, True)] if tier != "quick" else [])
    out = []
    for base, lower in plans:
        insts = [bytes([op]) + opnd for op, r in known for opnd in samples68(rng, r[0], r[1], tier)]
        chunks = [insts[i:i + 1000] for i in range(0, len(insts), 1000)]   # one batch stays below 4 KiB
        for ci, ch in enumerate(chunks):
            b = base + 0x1000 * ci if base is not None else 0x10000 - 4 * len(ch) - 0x1000 * ci
            out.append((b, lower, [(b + 4 * i, x) for i, x in enumerate(ch)]))
    return out


def parse_dasl68(stdout):
    """address -> (SrcLine bytes, byte count) of every instruction/data line of a dasl listing"""
    res, addr = {}, None
    for line in stdout.split(b"\n"):
        m = ORG68_RE.match(line)
        if m:
            addr = int(m.group(1), 16) if m.group(1) else int(m.group(2))
            continue
        m = LINE68_RE.match(line)
        if m and addr is not None:
            n = len(m.group(2).split())
            res[addr] = (m.group(1).rstrip(b"\t"), n)
            addr += n
    return res


def asm_lines68(bdir, wd, name, items):
    """items = [(addr, text)] -> {addr: bytes | None}; every statement at its own `org`, labels defined by equ.
    Statements asl reports an error for get None (asl writes no code file when there is any error, so it is run again without them)."""
    labels = {}
    for _a, t in items:
        for m in LABEL68_RE.finditer(t):
            labels[m.group(1)] = int(m.group(2), 16)
    bad = set()
    for attempt in range(3):
        lines = ["\tcpu 6800"] + ["%s\tequ\t$%04x" % (n, v) for n, v in sorted(labels.items())]
        lineno = {}
        for a, t in items:
            if a in bad:
                continue
            lines.append("\torg\t$%x" % a)
            lines.append("\t" + t)
            lineno[len(lines)] = a
        f = os.path.join(wd, name + ".asm")
        open(f, "wb").write(("\n".join(lines) + "\n").encode("latin-1"))
        pf = os.path.join(wd, name + ".p")
        if os.path.exists(pf):
            os.unlink(pf)
        rc, so, se = common.run_tool(bdir, "asl", ["-q", f, "-o", pf], wd, timeout=120)
        if rc == 0 and os.path.exists(pf):
            mem = {}
            for st, d in mem_of_pfile(pf) or []:
                for i, x in enumerate(d):
                    mem[st + i] = x
            res = {}
            for a, _t in items:
                if a in bad:
                    res[a] = None
                    continue
                bs = []
                while len(bs) < 4 and (a + len(bs)) in mem:
                    bs.append(mem[a + len(bs)])
                res[a] = bytes(bs)
            return res, None
        errl = {int(m.group(1)) for m in ASLERR_RE.finditer((so + se).decode("latin-1"))}
        newbad = {lineno[l] for l in errl if l in lineno}
        if not newbad:
            return None, "asl failed without a usable error position: " + (so + se).decode("latin-1")[-300:]
        bad |= newbad
    return None, "asl still reports errors after removing the rejected statements"


def run_batch68(bdir, wd, bi, base, lower, insts):
    """one dasl run over the batch image + the per-statement assembly; returns (c15 request, [c15_68 requests], metas, problems)"""
    img = bytearray([0x39]) * (4 * len(insts))
    for a, bs in insts:
        img[a - base:a - base + len(bs)] = bs
    bf = os.path.join(wd, "b68_%d.bin" % bi)
    open(bf, "wb").write(bytes(img))
    # the entry addresses go through a key file (DASCMD=@file): a command line takes at most 256 parameters
    kf = os.path.join(wd, "b68_%d.key" % bi)
    open(kf, "w").write("".join("-entryaddress %d\n" % a for a, _ in insts))
    args = (["-h"] if lower else []) + ["-cpu", "6800", "-binfile", "%s@%d" % (bf, base)]
    rc, so, se = common.run_tool(bdir, "dasl", args, wd, timeout=120, env={"DASCMD": "@" + kf})
    if rc != 0:
        return None, [], [], ["dasl failed on the 6800 opcode batch at %x: rc=%s %s" % (base, rc, se[-200:])]
    listing = parse_dasl68(so)
    items, problems = [], []
    for a, bs in insts:
        if a not in listing:
            problems.append("no listing line for the entry address %x (bytes %s)" % (a, bs.hex()))
            continue
        items.append((a, listing[a][0].decode("latin-1")))
    asmres, err = asm_lines68(bdir, wd, "a68_%d" % bi, items)
    if asmres is None:
        return None, [], [], [err]
    req15 = "6800 %d 1 %d %s %d %s %d %s %s none" % (1 if lower else 0, base, bytes(img).hex(), len(insts), " ".join("d:%d" % a for a, _ in insts),
                                                   rc, so.hex() or "-", se.hex() or "-")
    reqs, metas = [], []
    by_addr = dict(insts)
    for a, t in items:
        pairs = {m.group(1): int(m.group(2), 16) for m in LABEL68_RE.finditer(t)}
        ra = asmres[a]
        reqs.append("%d %d %s %d %s %s %s" % (1 if lower else 0, a, bytes(img[a - base:a - base + 4]).hex(), len(pairs),
                                            " ".join("%s %d" % kv for kv in pairs.items()), t.encode("latin-1").hex(),
                                            "none" if ra is None else (ra.hex() or "-")))
        metas.append(dict(addr=a, bytes=by_addr[a].hex(), text=t, asl=None if ra is None else ra.hex(), lower=lower))
    return req15, reqs, metas, problems


def probe_cut68(bdir, wd):
    """raw 6800 images (not assembler output) around RetrieveCodeFromChunkList: an instruction cut off by the end of the image, one
    that lies in two adjacent chunks, a vector cell that is only half there, an empty image, and an instruction that runs through
    the end of the address space: [(name, sig, c15 driver request, info)]; sig None = repaired or never defective, must hold (so must
    a class whose signature is listed as fixed in known_findings.json)"""
    out = []
    for name, sig, chunks_, entry, need_reasm in (
            ("cut", None, [(0x1000, bytes([0x01, 0xb6, 0x12]))], "d:4096", True),
            ("cut2", None, [(0x2000, bytes([0x01, 0xce, 0x12])), (0x2004, bytes([0x39]))], "d:8192", True),
            ("across", None, [(0x1000, bytes([0xb6, 0x12])), (0x1002, bytes([0x34, 0x39]))], "d:4096", True),
            ("across3", None, [(0x1002, bytes([0x34])), (0x1000, bytes([0x01, 0xb6])), (0x1003, bytes([0x7e, 0x10, 0x00]))], "d:4096", True),
            ("vector-cut", None, [(0x1000, bytes([0x01, 0x39, 0x10]))], "v:4098:2:M", False),
            ("vector-across", None, [(0x1000, bytes([0x01, 0x39, 0x10])), (0x1003, bytes([0x00]))], "v:4098:2:M", True),
            ("empty", None, [(0, b"")], "d:0", False),
            # the branch leads into its own second byte: the traced extents overlap, and the listing - which walks the area from its
            # start - meets at $1002 an instruction that does not fit into the image (das.c leaves the area there); the label in the
            # middle of an instruction is never defined, so this listing cannot be re-assembled
            ("listing-cut", None, [(0x1000, bytes([0x20, 0xff, 0xb6, 0x12]))], "d:4096", False),
            # the end of the address space (deco68.c RetrieveData; repaired by bdcaec7, the signature is listed as fixed and suppresses
            # nothing): an operand is not continued at address 0, an opcode asked for at $10000 is not taken from address 0, the
            # last byte of the address space is still an instruction
            ("wrap", "dasl-instruction-wraps-64k", [(0xfffe, bytes([0xb6, 0x12])), (0x0000, bytes([0x10]))], "d:65534", False),
            ("wrap-at-ffff", "dasl-instruction-wraps-64k", [(0xffff, bytes([0xb6])), (0x0000, bytes([0x12, 0x10, 0x39]))], "d:65535", False),
            ("wrap-entry-10000", "dasl-instruction-wraps-64k", [(0xfffe, bytes([0x01, 0x01])), (0x0000, bytes([0x39]))], "d:65536", False),
            ("top-byte", None, [(0xfffe, bytes([0x01, 0x39]))], "d:65535", True),
            ("top-ext", None, [(0xfffd, bytes([0x7e, 0xff, 0xfd]))], "d:65533", True)):
        largs = []
        for i, (st, d) in enumerate(chunks_):
            bf = os.path.join(wd, "%s%d.bin" % (name, i))
            open(bf, "wb").write(d)
            largs += ["-binfile", "%s@%d" % (bf, st)]
        ea = entry[2:] if entry.startswith("d:") else "(%s,%s,MSB)" % tuple(entry.split(":")[1:3])
        args = ["-cpu", "6800"] + largs + ["-entryaddress", ea]
        rc, so, se = common.run_tool(bdir, "dasl", args, wd, timeout=30)
        re1 = None
        if rc == 0 and need_reasm:
            re1, _err = asm(bdir, wd, "cut_" + name.replace("-", "_") + "_r", so, "6800")
        req = "6800 0 %d %s 1 %s %d %s %s %s" % (len(chunks_), " ".join("%d %s" % (st, d.hex() or "-") for st, d in chunks_), entry,
                                                 rc if isinstance(rc, int) else 99, so.hex() or "-", se.hex() or "-",
                                                 "none" if re1 is None else "%d %s" % (len(re1), " ".join("%d %s" % (a, bytes(d).hex()) for a, d in re1)))
        out.append((name, sig, req, dict(image=[(st, d.hex()) for st, d in chunks_], entry=entry, dasl_rc=rc, reassembled=re1 is not None, need_reasm=need_reasm,
                                         dasl_stdout=so.decode("latin-1")[:600], dasl_stderr=se.decode("latin-1")[:300])))
    return out


def probe_jcn_fwd(bdir, wd, rng):
    """`jcn <cond>,<label>` with the label defined further down / further up, in the page of PC+2 / in another page, at the end and
    in the middle of a page; every probe is a source of its own for the real asl: [(driver request `jcnfwd ...`, description)]"""
    out = []
    plans = []
    for ofs in (0xfc, 0xfd, 0xfe, 0xff, rng.randrange(0, 0xfc)):
        page = rng.randrange(1, 14)
        pc = (page << 8) + ofs
        good = (pc + 2) >> 8
        plans.append((pc, (good << 8) + rng.randrange(max(0, (pc + 2) - (good << 8)), 256)))          # forward (or at pc+2), valid page
        plans.append((pc, ((good + 1) << 8) + rng.randrange(256)))                                      # forward, wrong page
        if (pc >> 8) == good and ofs > 4:
            plans.append((pc, (good << 8) + rng.randrange(0, ofs - 1)))                                 # backward, valid page
        plans.append((pc, ((pc >> 8) - 1 << 8) + rng.randrange(256)))                                   # backward, page before
    for k, (pc, t) in enumerate(plans):
        if pc <= t < pc + 2:
            continue
        m = rng.randrange(1, 16)
        use = "\torg %d\n\tjcn %s,LT\n" % (pc, cond_text(m))
        dfn = "\torg %d\nLT:\tnop\n" % t
        src = "\tcpu 4040\n" + (use + dfn if t > pc else dfn + use)
        mem, _err = asm(bdir, wd, "jf%d" % k, src)
        bs = None
        if mem is not None:
            flat = {st + i: x for st, d in mem for i, x in enumerate(d)}
            bs = bytes(flat[pc + i] for i in range(2) if pc + i in flat)
        out.append(("jcnfwd 1 %d %d %d %s" % (pc, m, t, "none" if bs is None else bs.hex()),
                    "jcn %s,LT at %03X with LT at %03X -> %s" % (cond_text(m), pc, t, "error" if bs is None else bs.hex())))
    return out


def kv_of(ans):
    return dict(x.split("=", 1) for x in ans.split() if "=" in x)


def probe_cli(bdir, wd):
    """the documented `-entryaddress <address>,<name>` form"""
    bf = os.path.join(wd, "cli.bin")
    open(bf, "wb").write(bytes([0x01, 0x39]))
    rc, so, se = common.run_tool(bdir, "dasl", ["-cpu", "6800", "-binfile", bf + "@4096", "-entryaddress", "4096,start"], wd, timeout=30)
    ok = rc == 0 and b"start:" in so
    return ok, dict(args="-cpu 6800 -binfile cli.bin@4096 -entryaddress 4096,start", rc=rc, stdout=so.decode("latin-1")[:300], stderr=se.decode("latin-1")[:300])


def run(args):
    res = common.Result("C15", args.tier, args.seed, "proof")
    bdir, audit, proof_problems = common.standard_setup(res, "C15", ["Deco4004", "Deco68", "DisIsa4004", "DisIsa6800", "Deco87C"])
    if bdir is None:
        return res.finish()
    ok = not any(p.startswith("driver does not build") for p in proof_problems)
    rng = common.rng_for(args.seed, "C15")
    n = {"quick": 260, "thorough": 6000}[args.tier]
    spec_fail, corr_fail, samples = [], [], []
    dist = dict(cases=0, cpu4004=0, cpu6800=0, bin=0, hex=0, hexhand=0, hex_not_ascending=0, hex_shapes={}, src_orders={}, hex_split_instruction=0, lower=0, entries={1: 0, 2: 0, 3: 0, 4: 0}, vector=0, embedded_data=0, gap=0,
                areas_code=0, areas_data=0, bytes_disassembled=0, instructions_traced=0, unchanged_reassembly_ok=0, rewritten=0,
                sweep_opcodes=0, sweep_reassembled=0, genfail=0, feature_cases=0,
                sweep68_batches=0, sweep68_instructions=0, sweep68_roundtrip_ok=0, sweep68_ext_page0=0, sweep68_opcodes=0, sweep68_labels=0, cut_probes=0)
    distinct = set()
    with common.Workdir("c15") as wd:
        plan = []
        # deliberate feature cases (classes in which defects have been found and repaired), then the clean population
        feature_plan = (("4004", "isz-fe"), ("4004", "jcn-fe"), ("4004", "jcn-fe"), ("6800", "des"), ("6800", "ext-zp"), ("6800", "vector"), ("6800", "vector"))
        for f in feature_plan:
            plan.append(f)
        for i in range(n):
            plan.append(("4004" if i % 2 == 0 else "6800", "vector" if (i % 2 == 1 and i % 14 == 5) else None))
        cases = []
        cdir = os.path.join(common.VERIF, "corpus", "C15")
        if os.path.isdir(cdir):
            for f in sorted(os.listdir(cdir)):
                if f.endswith(".json"):
                    d = json.load(open(os.path.join(cdir, f)))
                    d["feats"] = set(d.get("feats", []))
                    d["entries"] = [tuple(e) for e in d["entries"]]
                    cases.append((d, d.get("load", "bin"), False, "corpus:" + f))
        # the order of the ORG blocks in the source (= of the records p2hex writes) and the way the image is handed to dasl; the
        # first cases of every run are the non-ascending p2hex files and the harness-written hex files, for both CPUs
        forced = [(o, l) for o in ("descending", "shuffled", "interleaved") for l in ("hex",)] + [("ascending", "hexhand"), ("descending", "hexhand")]
        nfeat = len(feature_plan)
        for i, (cpu, feat) in enumerate(plan):
            c = gen_4004(rng, feat) if cpu == "4004" else gen_6800(rng, feat)
            load = pick_load(rng)
            order = pick_src_order(rng)
            k = (i - nfeat) // 2
            if feat is None and 0 <= k < len(forced):
                order, load = forced[k]
                for _ in range(30):     # these cases need blocks that can change places
                    if len(source_segments(c["source"])[1]) >= 3:
                        break
                    c = gen_4004(rng, feat) if cpu == "4004" else gen_6800(rng, feat)
            if feat in ("isz-fe", "jcn-fe"):
                order = "ascending"
            tag = "gen:%d:%s:%s" % (i, cpu, feat or "-")
            reorder_source(common.rng_for(args.seed, "C15-order:" + tag), c, order)
            c["hexhand_rng"] = common.rng_for(args.seed, "C15-hexhand:" + tag)
            lower = rng.random() < 0.15
            cases.append((c, load, lower, tag))
        reqs, metas = [], []
        for idx, (c, load, lower, tag) in enumerate(cases):
            r = run_case(bdir, wd, idx, c, load, lower)
            if "genfail" in r:
                dist["genfail"] += 1
                log("generator case rejected by asl:", tag, r["genfail"])
                if dist["genfail"] > max(3, len(cases) // 20):
                    proof_problems.append("generator: %s (%s)" % (r["genfail"], tag))
                continue
            if "crash" in r:
                spec_fail.append(dict(tag=tag, why="dasl did not terminate normally: " + r["crash"], **r["info"]))
                continue
            reqs.append(r["req"])
            metas.append((c, load, lower, tag, r))
        # opcode sweep
        sw = sweep_cases(bdir)
        if args.tier == "quick":
            # (the 6800 rows that used to be wrong - $14 `nba`, $34 `dess`, $C7 `stab #` - are always part of it if deco68.c knows them)
            sw = [s for s in sw if (s["op"] + args.seed) % 2 == 0 or s["cpu"] == "6800" and s["op"] in (0x14, 0x34, 0xc7) or s.get("pageend")]
        sreqs, smetas = [], []
        for sc in sw:
            r = run_sweep_case(bdir, wd, sc)
            sreqs.append(r["req"])
            smetas.append((sc, r))
        cli_ok, cli_info = probe_cli(bdir, wd)
        cut68 = probe_cut68(bdir, wd)
        jcnfwd = probe_jcn_fwd(bdir, wd, common.rng_for(args.seed, "C15-jcnfwd"))
        # 6800: every opcode x operand samples, instruction by instruction
        b68_req15, b68_reqs, b68_metas, b68_bases = [], [], [], []
        for bi, (base, lower, insts) in enumerate(batches68(bdir, common.rng_for(args.seed, "C15-68"), args.tier)):
            r15, rq, mt, probs = run_batch68(bdir, wd, bi, base, lower, insts)
            for pr in probs:
                proof_problems.append("6800 instruction sweep: " + pr)
            if r15 is None:
                continue
            b68_req15.append(r15)
            b68_bases.append((base, lower, len(insts)))
            b68_reqs += rq
            b68_metas += mt
    answers = common.driver("c15", reqs + sreqs + b68_req15 + [c[2] for c in cut68], timeout=3600) if ok and (reqs or sreqs or b68_req15) else []
    a1, a2, a3 = answers[:len(reqs)], answers[len(reqs):len(reqs) + len(sreqs)], answers[len(reqs) + len(sreqs):len(reqs) + len(sreqs) + len(b68_req15)]
    a4 = answers[len(reqs) + len(sreqs) + len(b68_req15):]
    a68 = common.driver("c15_68", b68_reqs, timeout=3600) if ok and b68_reqs else []
    ajf = common.driver("c15", [q for q, _d in jcnfwd], timeout=600) if ok and jcnfwd else []

    def feature_sig(c, kv, r):
        """signature of a failure by input class - only for classes with a recorded finding (a signature that is listed as fixed
        suppresses nothing).  Extended operands in page 0, JCN with a forward label at a page end and instructions across two chunks
        of a hex image have been repaired: no signature, a failure there is a violation."""
        f = c["feats"]
        if "isz-at-xFE" in f:
            return "isz-page-boundary-4004"
        if "des" in f:
            return "deco68-des-printed-dess"
        return None

    for (c, load, lower, tag, r), ans in zip(metas, a1):
        kv = kv_of(ans)
        info = r["info"]
        dist["cases"] += 1
        dist["cpu" + c["cpu"]] += 1
        dist[load] += 1
        if load != "bin":
            dist["hex_not_ascending"] += int(not info.get("hex_ascending", True))
            dist["hex_shapes"][info.get("hex_shape", "?")] = dist["hex_shapes"].get(info.get("hex_shape", "?"), 0) + 1
            dist["hex_split_instruction"] += int(info.get("split_instruction") is not None)
        dist["src_orders"][info.get("src_order", "ascending")] = dist["src_orders"].get(info.get("src_order", "ascending"), 0) + 1
        dist["lower"] += int(lower)
        ne = min(4, max(1, len(c["entries"])))
        dist["entries"][ne] += 1
        for k in ("vector", "embedded-data", "gap"):
            if k in c["feats"]:
                dist[k.replace("-", "_")] += 1
        if c["feats"] & {"isz-at-xFE", "des", "ext-zp", "jcn-at-page-end"}:
            dist["feature_cases"] += 1
        for k in ("ext-zp", "jcn-at-page-end"):
            if k in c["feats"]:
                dist[k.replace("-", "_")] = dist.get(k.replace("-", "_"), 0) + 1
        dist["undef_dump_bytes"] = dist.get("undef_dump_bytes", 0) + int(kv.get("undef", 0))
        dist["areas_code"] += int(kv.get("ncode", 0))
        dist["areas_data"] += int(kv.get("ndata", 0))
        dist["bytes_disassembled"] += int(kv.get("nbytes", 0))
        dist["instructions_traced"] += int(kv.get("ninstr", 0))
        dist["unchanged_reassembly_ok"] += int(r["unchanged_ok"])
        dist["rewritten"] += int(bool(r["rewrites"]))
        distinct.add(info["dasl_stdout"])
        verdict = {k: v for k, v in kv.items() if k not in ("mtext", "merr")}
        if "error" in kv:
            proof_problems.append("driver c15 cannot read its request for %s: %s" % (tag, kv["error"]))
            continue
        if len(samples) < 4 and int(kv.get("ninstr", 0)) >= 5 and (len(samples) % 2 == 0) == (c["cpu"] == "4004"):
            samples.append(dict(tag=tag, load=load, entries=c["entries"], source=c["source"][:500], dasl_stdout=info["dasl_stdout"][:700], verdict=verdict))
        common_fields = dict(tag=tag, verdict=verdict, **info)
        # (C) spec on the real tools
        fsig = feature_sig(c, kv, r)
        if not r["unchanged_ok"]:
            if "org-intel-syntax" in r["rewrites"]:
                sig = "dasl-org-syntax-4004"
            elif "indirect-line-removed" in r["rewrites"]:
                sig = "dasl-indirect-line-on-stdout"
            else:
                sig = fsig
            spec_fail.append(dict(sig=sig, why="asl rejects dasl's output as printed", **common_fields))
        if r["rewrites"] and not r["rewritten_ok"]:
            spec_fail.append(dict(sig=fsig, why="asl rejects dasl's output even after the labelled harness rewrites " + ",".join(r["rewrites"]), **common_fields))
        if kv.get("bytes") == "fail":
            spec_fail.append(dict(sig=fsig, why="re-assembled bytes differ from the image at address %s" % kv.get("bad"), **common_fields))
        if kv.get("inside") != "ok" or kv.get("disjoint") != "ok":
            spec_fail.append(dict(sig=None,
                                  why="reported areas not inside the image / not disjoint: inside=%s disjoint=%s" % (kv.get("inside"), kv.get("disjoint")), **common_fields))
        if kv.get("entry") != "ok":
            spec_fail.append(dict(sig=None, why="an entry address that lies inside the loaded image is not part of any code area dasl reports "
                                  "(the program was not disassembled starting at its entry points)", **common_fields))
        # (B) model against the real run
        if kv.get("text") != "eq" or kv.get("err") != "eq" or kv.get("rc") != "eq" or kv.get("areas") != "eq" or kv.get("hang") != "0":
            mt = bytes.fromhex(kv["mtext"]).decode("latin-1") if kv.get("mtext", "-") not in ("-", "") else ""
            corr_fail.append(dict(why="dasl's output differs from the Lean model", model_stdout=mt[:6000], **common_fields))
        if kv.get("l1") != "eq":
            proof_problems.append("model-internal: chunks.c array algorithm and interval-set insertion disagree on " + tag)
    sweep_bad = []
    for (sc, r), ans in zip(smetas, a2):
        kv = kv_of(ans)
        dist["sweep_opcodes"] += 1
        opname = "%s:%02X:%s" % (sc["cpu"], sc["op"], sc["memo"])
        if kv.get("text") != "eq" or kv.get("err") != "eq" or kv.get("areas") != "eq":
            mt = bytes.fromhex(kv["mtext"]).decode("latin-1") if kv.get("mtext", "-") not in ("-", "") else ""
            corr_fail.append(dict(tag="sweep:" + opname, why="dasl's output for a single opcode differs from the Lean model", dasl_stdout=r["stdout"], model_stdout=mt))
        if r["reasm_ok"] and kv.get("bytes") == "ok":
            dist["sweep_reassembled"] += 1
        else:
            sweep_bad.append(opname)
            sig_sw = "sweep-%s-%02X%s-not-reassemblable" % (sc["cpu"], sc["op"], "-at-%02X" % sc["pageend"] if sc.get("pageend") else "")
            spec_fail.append(dict(sig=sig_sw, tag="sweep:" + opname,
                                  why="opcode %s: dasl prints text that asl rejects or assembles to other bytes (%s)" % (opname, (r["err"] or kv.get("bad", ""))[-200:].strip()),
                                  image=sc["img"].hex(), start=sc["start"], dasl_stdout=r["stdout"]))
    # ---- 6800: instructions that do not fit into the image / lie in two chunks; vector cells; the end of the address space
    for (name, sig, _req, info), ans in zip(cut68, a4):
        kv = kv_of(ans)
        dist["cut_probes"] = dist.get("cut_probes", 0) + 1
        if info["dasl_rc"] != 0:
            # the option was rejected (a vector cell that cannot be read): the model has to reject it as well, there is no listing
            if kv.get("model") != "rejected" or kv.get("rc") != "eq":
                corr_fail.append(dict(tag="cut68:" + name, why="dasl rejects the -entryaddress option, the Lean model of CMD_EntryAddress does not", **info))
            continue
        if kv.get("text") != "eq" or kv.get("err") != "eq" or kv.get("areas") != "eq" or kv.get("rc") != "eq" or kv.get("hang") != "0":
            mt = bytes.fromhex(kv["mtext"]).decode("latin-1") if kv.get("mtext", "-") not in ("-", "") else ""
            corr_fail.append(dict(tag="cut68:" + name, why="dasl's output for an image with an instruction / a vector at the end of a chunk differs from the Lean model "
                                  "(text=%s err=%s areas=%s rc=%s)" % (kv.get("text"), kv.get("err"), kv.get("areas"), kv.get("rc")), model_stdout=mt, **info))
        if kv.get("inside") != "ok" or kv.get("disjoint") != "ok":
            spec_fail.append(dict(sig=sig, tag="cut68:" + name, why="a reported code area is not inside the loaded image (inside=%s)" % kv.get("inside"), **info))
        if int(kv.get("undef", 0)):
            spec_fail.append(dict(sig=sig, tag="cut68:" + name, why="the byte dump of a listing line shows %s byte(s) of memory dasl never wrote" % kv.get("undef"), **info))
        if info["need_reasm"]:
            if not info["reassembled"] or kv.get("bytes") != "ok":
                spec_fail.append(dict(sig=None, tag="cut68:" + name, why="the listing of the image does not re-assemble to the image's bytes on the areas it reports "
                                      "(re-assembled: %s, bytes=%s bad=%s)" % (info["reassembled"], kv.get("bytes"), kv.get("bad")), **info))
    for (_q, desc), ans in zip(jcnfwd, ajf):
        kv = kv_of(ans)
        dist["jcn_forward_probes"] = dist.get("jcn_forward_probes", 0) + 1
        if kv.get("enc") != "eq":
            corr_fail.append(dict(tag="jcnfwd", why="the real asl and the two passes of I4004.encodeF disagree on `%s` (model: %s)" % (desc, kv.get("masm"))))
    # ---- 6800 instruction sweep
    for (base, lower, ninst), ans in zip(b68_bases, a3):
        kv = kv_of(ans)
        dist["sweep68_batches"] += 1
        if kv.get("text") != "eq" or kv.get("err") != "eq" or kv.get("areas") != "eq" or kv.get("hang") != "0":
            mt = bytes.fromhex(kv["mtext"]).decode("latin-1") if kv.get("mtext", "-") not in ("-", "") else ""
            corr_fail.append(dict(tag="sweep68:batch@%x" % base, why="dasl's listing of the 6800 opcode batch differs from the Lean model "
                                  "(text=%s err=%s areas=%s hang=%s)" % (kv.get("text"), kv.get("err"), kv.get("areas"), kv.get("hang")),
                                  lower=lower, instructions=ninst, model_stdout=mt[:3000]))
    ops68, samples68_ev = set(), []
    for m, ans in zip(b68_metas, a68):
        kv = kv_of(ans)
        op = int(m["bytes"][:2], 16)
        dist["sweep68_instructions"] += 1
        ops68.add(op)
        dist["sweep68_labels"] += int("lab_" in m["text"] or "sub_" in m["text"])
        if "error" in kv or "dec" not in kv:
            proof_problems.append("driver c15_68 cannot read its request for %s" % m)
            continue
        tag = "sweep68:%04X:%s" % (m["addr"], m["bytes"])
        if len(samples68_ev) < 6 and dist["sweep68_instructions"] % 97 == 1:
            samples68_ev.append(dict(tag=tag, dasl_text=m["text"], asl_bytes=m["asl"], verdict={k: v for k, v in kv.items() if k not in ("mtext", "masm")}))
        if kv["dec"] != "eq":
            corr_fail.append(dict(tag=tag, why="the statement dasl prints differs from M6800.decode", dasl_text=m["text"],
                                  model_text=bytes.fromhex(kv["mtext"]).decode("latin-1") if kv.get("mtext", "-") != "-" else "", lower=m["lower"]))
        if kv["enc"] != "eq":
            corr_fail.append(dict(tag=tag, why="the bytes asl makes of dasl's statement differ from A6800.assemble", dasl_text=m["text"],
                                  asl_bytes=m["asl"], model_bytes=kv.get("masm")))
        if len(m["bytes"]) == 6 and m["bytes"][2:4] == "00" and ">" in m["text"]:
            dist["sweep68_ext_page0"] = dist.get("sweep68_ext_page0", 0) + 1
        if kv["rt"] == "ok":
            dist["sweep68_roundtrip_ok"] += 1
        else:
            spec_fail.append(dict(sig=None, tag=tag, why="6800 instruction %s at %04X: dasl prints `%s`, asl makes %s of it" %
                                  (m["bytes"], m["addr"], m["text"], m["asl"] or "an error"),
                                  image=m["bytes"], start=m["addr"], dasl_text=m["text"], asl_bytes=m["asl"], lower=m["lower"]))
    dist["sweep68_opcodes"] = len(ops68)
    if not cli_ok:
        spec_fail.append(dict(sig="entryaddress-name-form", why="the documented `-entryaddress <address>,<name>` form is rejected", **cli_info))

    # ---- third target: TLCS-870 (vlib/props/c15_87c.py)
    part87 = c15_87c.run_part(args, bdir, ok)
    spec_fail += part87["spec_fail"]
    corr_fail += part87["corr_fail"]
    proof_problems += part87["proof_problems"]

    res.coverage = common.proof_coverage(audit, "C15", [
        "translate/tables.py (OpcodeList[256] of deco4004.c/deco68.c via compiled dumper, InitFields() call list of code4004.c via clang-14 AST)",
        "correspondence: real dasl vs Model.Dis (text, stderr, areas) on generated images and on one image per opcode (differential test)",
        "round trip through the real asl/p2bin/p2hex/dasl (oracle run, not a proof)",
        "-hexfile: real dasl (stdout, stderr incl. `code chunk overlap`, areas) vs Model/Dis/HexLoad.lean (das.c CMD_HexFile) on the text of every hex file; "
        "the memory the areas are judged against comes from the independent Intel-HEX decoder Spec/Hex.lean (C15_hexload_file ties the two together)",
        "6800 instruction sweep: real dasl text vs M6800.decode, real asl bytes vs A6800.assemble, real round trip vs C15_6800_roundtrip "
        "on every known opcode x operand samples (differential test of the two models the theorems are about)",
        "raw images with an instruction / a vector cell at the end of a chunk, across two chunks, an empty chunk, the end of the address space: real dasl vs the "
        "model of RetrieveCodeFromChunkList (retrieve_isSome_iff is the theorem about it)",
        "jcn with a forward / backward label at page ends: real asl vs the two passes of I4004.encodeF"])
    res.coverage.update(
        evaluations=len(reqs) + len(sreqs) + len(b68_reqs), distinct_nontrivial=len(distinct),
        rule="random valid 4004/4040 and 6800 programs (blocks ending in jun/bbl resp. bra/jmp/rts/rti, branches and calls to instruction starts inside the image, "
             "embedded data after terminal instructions, org gaps, 1..4 entry addresses, 6800 vector entries), the ORG blocks of the source written in ascending, "
             "descending, shuffled, interleaved, rotated or one-displaced order (adjacent and gapped blocks), image loaded via -binfile@start, via the Intel-hex file p2hex "
             "writes (it keeps the record order of the code file) or via a hex file written by the harness (record length 1..64, records/address runs ascending, "
             "descending, shuffled, interleaved, one displaced; empty data records; 02/03/04/05 records without memory content), "
             "optionally -h; for -hexfile the model image is built from the file's text by Model/Dis/HexLoad.lean and the SPEC memory by Spec/Hex.lean decodeIhex;  distinct = distinct dasl listings; non-trivial = every listing contains at least one traced instruction; plus one image per known opcode; "
             "plus (6800) every known opcode x boundary/random operand bytes on a 4-byte raster at $1000 and up to $FFFF (thorough: also page zero and $8000), each one an entry address; "
             "6800 extended-mode operands in page 0 (`>`) in about every eighth extended statement; 4004 JCN/ISZ in the last two bytes of a page with the target - a forward label, or for half "
             "of the JCNs a number - in the following page; raw 6800 images with an instruction / a vector cell cut off by the end of a chunk, lying across two chunks, "
             "an empty chunk, a listing that meets an instruction that does not fit, an instruction through the end of the address space",
        samples=samples, samples_6800_sweep=samples68_ev, distribution=dist, sweep_not_reassemblable=sweep_bad, exhaustive=False)
    res.assumptions = ["re-assembly is done with `asl -cpu 4040` for dasl's CPU 4004 (dasl prints no CPU line and decodes the 4040 extensions) and `-cpu 6800`",
                       "memory of a code file is read by the harness-side reader common.parse_pfile_py",
                       "label definition/lookup and operand text parsing are exercised through the real asl, not proved "
                       "(6800: the statement-level parsing of the printed operand forms is modelled in Model/Dis/A6800.lean and compared with the real asl on every sweep instruction)",
                       "6800 instruction sweep: the per-statement re-assembly defines the labels dasl invented by `equ` lines (final-pass values), one statement per `org`"]
    res.coverage["cpu87c"] = part87["coverage"]
    res.coverage["evaluations"] += part87["evaluations"]
    res.coverage["distinct_nontrivial"] += part87["distinct"]
    return common.conclude(res, proof_problems, spec_fail, corr_fail, len(reqs) + len(sreqs) + len(b68_reqs) + part87["evaluations"])


def replay(args):
    d = json.load(open(args.replay))
    print(json.dumps({k: (v if len(str(v)) < 3000 else str(v)[:3000] + "...") for k, v in d.items()}, indent=1))
    if d.get("cpu87c"):
        return c15_87c.replay(d)
    if "image" in d and "start" in d and "dasl_text" in d and "source" not in d:
        # a single 6800 instruction of the opcode sweep
        bdir = common.repo_build("hooks")
        with common.Workdir("c15r") as wd:
            img = bytes.fromhex(d["image"]) + bytes([0x39] * 4)
            bf = os.path.join(wd, "i.bin")
            open(bf, "wb").write(img)
            a = (["-h"] if d.get("lower") else []) + ["-cpu", "6800", "-binfile", "%s@%d" % (bf, d["start"]), "-entryaddress", str(d["start"])]
            rc, so, se = common.run_tool(bdir, "dasl", a, wd)
            print("dasl", " ".join(a[:-4] + ["-binfile", "i.bin@%d" % d["start"], "-entryaddress", str(d["start"])]), "-> rc", rc)
            print(so.decode("latin-1"))
            print(se.decode("latin-1"))
            res_, err = asm_lines68(bdir, wd, "r", [(d["start"], d["dasl_text"])])
            got = None if res_ is None else res_.get(d["start"])
            print("asl -cpu 6800 on `%s` at $%X: %s (image: %s)" % (d["dasl_text"], d["start"], "error" if got is None else got.hex(), d["image"]))
        return 0
    if "source" in d and "dasl_args" in d:
        bdir = common.repo_build("hooks")
        with common.Workdir("c15r") as wd:
            mem, err = asm(bdir, wd, "c0", d["source"])
            print("asl:", "ok" if mem is not None else err)
            if mem is None:
                return 1
            pf = os.path.join(wd, "c0.p")
            common.run_tool(bdir, "p2bin", [pf, os.path.join(wd, "c0.bin"), "-q"], wd)
            common.run_tool(bdir, "p2hex", [pf, os.path.join(wd, "c0.hex"), "-F", "Intel", "-q"], wd)
            if d.get("load") == "hexhand" and d.get("hexfile_text"):
                open(os.path.join(wd, "c0.hex"), "w").write(d["hexfile_text"])      # the hex file the harness wrote
            if d.get("load") in ("hex", "hexhand"):
                print("hex file given to dasl (%s):" % d.get("hex_shape"))
                print(open(os.path.join(wd, "c0.hex")).read())
            a = [os.path.join(wd, re.sub(r"^c\d+\.", "c0.", x)) if re.match(r"^c\d+\.(bin|hex)", x) else x for x in d["dasl_args"]]
            rc, so, se = common.run_tool(bdir, "dasl", a, wd)
            print("dasl rc =", rc)
            print(so.decode("latin-1"))
            print(se.decode("latin-1"))
            cpu = "4040" if "4004" in d["dasl_args"] else "6800"
            m2, e2 = asm(bdir, wd, "r", so, cpu)
            print("re-assembly of dasl's stdout as printed:", "ok" if m2 is not None else e2)
    return 0
