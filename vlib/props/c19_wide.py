"""C19, word-listed / word-addressed targets: generated programs (called from c19.run).

The generator knows, per target, what the manufacturer's documentation and doc/pseudo-instructions.md say:
the size of the address unit per segment (`g`), the byte order of values wider than a byte (`be`), the data and
reservation directives with the size of one element, and the even-address padding rule (68000, MSP430).  These feed
the SPEC side of the driver (mode `c19w`).  The MODEL side takes Granularity / ListGran / TurnWords of the same CPU
from the generated table `Generated/ListParams.lean` (regenerated from the current build on every run).

Statements as large as the writer's and lister's buffers (`ProgW.big`, `c19.render_big`): ONE statement of 130..1300 bytes
(MaxCodeLen_Ini = 256: the per-line buffer grows; CodeBufferSize = 512: `WriteBytes` flushes / writes through), mixed with
short ones so that all three ways of `WriteBytes` occur at many buffer fills; `nprog // 3` additional programs consist mostly
of them.  The SPEC side is unchanged (listed bytes incl. all continuation lines = bytes of the code file at the listed
address); the MODEL side runs `Model/Listing.writeBytesLine` over the emission history and lists what it leaves behind."""
import os

from .. import common
from . import c19

SEGNO = {"code": 1, "data": 2, "eedata": 10}

# emit: (directive, bytes per element, largest element value); res: (directive, bytes per count)
WTARGETS = [
    dict(cpu="68000", be=1, share_asm="asmMoto", pad="68k",
         segs={"code": (1, 0xffff)}, gran={"code": 1}, org0=[0, 0x100, 0x1000, 0x1001, 0xfff0 - 0x4000],
         emit={"code": [("dc.b", 1, 255), ("dc.b", 1, 255), ("dc.w", 2, 65535), ("dc.w", 2, 65535), ("dc.l", 4, 0xffffffff)]},
         res={"code": [("ds.b", 1), ("ds.w", 2), ("ds.l", 4)]}, macro=("dc.w", 2),
         big=[("dc.b", 1, 255, "moto", True), ("dc.w", 2, 65535, "moto", True), ("dc.w", 2, 65535, "moto", True), ("dc.l", 4, 0xffffffff, "moto", True),
              ("dc.w", 2, 65535, "list", True), ("dc.l", 4, 0xffffffff, "list", True), ("dc.b", 1, 255, "str", True)]),
    # tipseudo.c define_untyped_label: a label in front of a TI data/reservation directive belongs to no address space
    dict(cpu="320C25", be=0, share_asm="asmIntel", pad=None, untyped_labels=True,
         segs={"code": (1, 0xffff), "data": (2, 0xffff)}, gran={"code": 2, "data": 2}, org0=[0, 0x100, 0x1000, 0xfff0 - 0x4000],
         init={"data": [0x60, 0x200]},
         emit={"code": [("word", 2, 65535)], "data": [("word", 2, 65535)]},
         res={"code": [("bss", 2)], "data": [("bss", 2)]}, macro=("word", 2), big=[("word", 2, 65535, "list", False)]),
    dict(cpu="320C30", be=0, share_asm="asmIntel", pad=None,
         segs={"code": (1, 0xffffff)}, gran={"code": 4}, org0=[0, 0x100, 0x1000, 0x809800],
         emit={"code": [("word", 4, 0xffffffff)]}, res={"code": [("bss", 4)]}, macro=("word", 4), big=[("word", 4, 0xffffffff, "list", False)]),
    dict(cpu="16C84", be=0, share_asm="asmMoto", pad=None,
         segs={"code": (1, 0x3ff), "data": (2, 0x1ff)}, gran={"code": 2, "data": 1}, org0=[0, 0x20, 0x100],
         init={"data": [0x0c, 0x20]},
         emit={"code": [("data", 2, 0x3fff)], "data": []},
         res={"code": [("res", 2)], "data": [("res", 1)]}, macro=("data", 2),
         big=[("data", 2, 0x3fff, "list", False), ("zero", 2, 0, "zero", True)]),
    dict(cpu="ATMEGA8", be=0, share_asm="asmC", pad=None,
         segs={"code": (1, 0xfff), "data": (2, 0x45f), "eedata": (10, 0x1ff)}, gran={"code": 2, "data": 1, "eedata": 1},
         org0=[0, 0x30, 0x400], init={"data": [0x60, 0x100], "eedata": [0, 0x10]},
         emit={"code": [("data", 2, 65535)], "data": [], "eedata": [("data", 1, 255)]},
         res={"code": [("res", 2)], "data": [("res", 1)], "eedata": [("res", 1)]}, macro=("data", 2), big=[("data", 2, 65535, "list", False)]),
    dict(cpu="MSP430", be=0, share_asm="asmIntel", pad="msp",
         segs={"code": (1, 0xffff)}, gran={"code": 1}, org0=[0x200, 0x1000, 0x1001, 0xfff0 - 0x4000],
         emit={"code": [("byte", 1, 255), ("word", 2, 65535), ("word", 2, 65535)]},
         res={"code": [("bss", 1)]}, macro=("word", 2),
         big=[("byte", 1, 255, "str", True), ("byte", 1, 255, "list", True), ("word", 2, 65535, "list", False)]),
    # TMS9900: big endian, byte addressed, listed in 16-bit words; BYTE / WORD / BSS and the padding rule as on the MSP430
    dict(cpu="TMS9900", be=1, share_asm="asmIntel", pad="msp",
         segs={"code": (1, 0xffff)}, gran={"code": 1}, org0=[0x200, 0x1000, 0x1001, 0xfff0 - 0x4000],
         emit={"code": [("byte", 1, 255), ("word", 2, 65535), ("word", 2, 65535)]},
         res={"code": [("bss", 1)]}, macro=("word", 2),
         big=[("byte", 1, 255, "str", True), ("byte", 1, 255, "str", True), ("byte", 1, 255, "list", True), ("word", 2, 65535, "list", False)]),
    dict(cpu="CP-1600", be=1, share_asm="asmMoto", pad=None,
         segs={"code": (1, 0xffff)}, gran={"code": 2}, org0=[0, 0x50, 0x1000, 0xfff0 - 0x4000],
         emit={"code": [("word", 2, 65535)]}, res={"code": [("res", 2)]}, macro=("word", 2), big=[("word", 2, 65535, "list", False)]),
    dict(cpu="80960", be=0, share_asm="asmIntel", pad=None,
         segs={"code": (1, 0xffffff)}, gran={"code": 1}, org0=[0, 0x3000, 0x10000],
         emit={"code": [("word", 4, 0xffffffff)]}, res={"code": [("space", 1)]}, res_mult=4, macro=("word", 4), big=[("word", 4, 0xffffffff, "list", False)]),
]
# `big`: directives for ONE statement of hundreds of bytes: (directive, bytes per element, largest value, operand style of
# c19.render_big, grows).  grows = False: the directive stores its operands without enlarging the per-line code buffer first
# (known finding 'data-directive-overruns-code-buffer'); such a statement is generated no larger than the buffer is known
# to be (asmdef.h MaxCodeLen_Ini = 256 bytes, or the largest earlier statement of a growing directive), except in the
# programs that are generated to show the finding (`overrun`).
MAXCODELEN_INI = 256
OVERRUN_SIG = "data-directive-overruns-code-buffer"
CNT_POOL = [1, 1, 2, 3, 3, 4, 5, 6, 7, 7, 9, 12, 13]


class ProgW(c19.Prog):
    """generated program for a word-listed / word-addressed target; pcs and phase in address units, event sizes in bytes"""

    def __init__(self, rng, base, size, tgt):
        super().__init__(rng, base, size)
        self.tgt = tgt
        self.padding = True
        self.stats.update(pad=0, padtoggle=0, bytes_remainder=0, multiline=0, big_capped=0, overrun=0)
        self.bigw = 3
        self.maxcode = MAXCODELEN_INI
        self.overrun = False

    # -- plumbing
    def g(self):
        return self.tgt["gran"][self.segname]

    def ev(self, kind, nbytes, line):
        self.events.append(dict(seg=self.seg()[0], load=self.pc(), phase=self.phase, n=nbytes, depth=len(self.stack) - 1,
                                line=line, file=self.cur(), kind=kind))
        self.pcs[self.segname] += nbytes // self.g()

    def needs_pad(self, u, reserve=False):
        p = self.tgt["pad"]
        if not p or not self.padding or (self.pc() + self.phase) % 2 == 0:
            return False
        if p == "68k":
            return u > 1
        return u > 1 and not reserve       # MSP430: every statement but BYTE and BSS

    def labseg(self):
        return "NOTHING" if self.tgt.get("untyped_labels") else self.segname.upper()

    def mklabel(self, extra):
        self.nlab += 1
        name = "lb%d" % self.nlab
        self.syms.append(dict(name=name, value=self.pc() + extra + self.phase, seg=self.labseg(), shared=False))
        self.unshared.append(name)
        self.stats["labels"] += 1
        return name

    def values(self, n, mx):
        r = self.rng
        pool = [0, 1, 9, 10, 255, 256, 0x1234, mx, mx - 1, mx // 2, mx // 2 + 1]
        return [min(mx, r.choice(pool)) if r.random() < 0.3 else r.randrange(mx + 1) for _ in range(n)]

    def emit(self, kind, u, count, ln):
        if self.needs_pad(u):
            self.ev(kind, 1, ln)
            self.stats["pad"] += 1
        self.ev(kind, u * count, ln)

    # -- statements
    def data(self, kind="c", n=None):
        r = self.rng
        ems = self.tgt["emit"][self.segname]
        if not ems:
            return self.reserve()
        d, u, mx = r.choice(ems)
        if n is None:
            n = r.choice(CNT_POOL) if u > 1 else r.choice(CNT_POOL + [19, 25])
        units = max(1, u // self.g())
        if self.room() < 8 * units:
            return
        n = max(1, min(n, (self.room() - 4) // units))
        pad = 1 if self.needs_pad(u) else 0
        lab = (self.mklabel(pad) + ":") if r.random() < 0.3 else ""
        ln = self.add("%s\t%s %s" % (lab, d, ",".join(str(v) for v in self.values(n, mx))))
        self.emit(kind, u, n, ln)
        self.stats["data"] += 1
        lg_guess = 4 if u == 4 else 2
        if n * u > 6:
            self.stats["longdata"] += 1
        if u == 1 and n % lg_guess:
            self.stats["bytes_remainder"] += 1

    def big(self, kind="c"):
        """one statement of 130..1300 bytes: as large as / larger than MaxCodeLen_Ini (256) and CodeBufferSize (512)"""
        r = self.rng
        if self.segname != "code":
            return self.data(kind)
        d, u, mx, style, grows = r.choice(self.tgt["big"])
        nb = c19.big_size(r)
        force = self.overrun and self.stats["overrun"] == 0
        if force:
            d, u, mx, style, grows = r.choice([b for b in self.tgt["big"] if not b[4]])
        if not grows:
            if force:
                nb = max(nb, self.maxcode + 128)
            elif nb > self.maxcode:
                nb = r.choice([self.maxcode, self.maxcode, self.maxcode - u, self.maxcode - 2 * u])
                self.stats["big_capped"] += 1
        g = self.g()
        nb = nb // max(u, g) * max(u, g)
        if nb < u or self.room() < nb // g + 8:
            return self.data(kind)
        text, n = c19.render_big(r, style, u, nb, lambda k: self.values(k, mx))
        if n % g:
            return self.data(kind)
        pad = 1 if self.needs_pad(u) else 0
        lab = (self.mklabel(pad) + ":") if r.random() < 0.3 else ""
        ln = self.add("%s\t%s %s" % (lab, d, text))
        self.emit(kind, u, n // u, ln)
        if grows:
            self.maxcode = max(self.maxcode, n)
        elif n > self.maxcode:
            self.stats["overrun"] += 1
        self.stats["big"] += 1
        self.stats["longdata"] += 1
        if n >= 512:
            self.stats["big_ge512"] += 1

    def listoff(self):
        if len(self.stack) > 1 or self.room() < 64:
            return
        self.add("\tlisting off")
        for _ in range(self.rng.randrange(1, 3)):
            if self.rng.random() < 0.15:
                self.big(kind="h")
            else:
                self.data(kind="h")
        self.add("\tlisting on")
        self.stats["listoff"] += 1

    def reserve(self):
        d, u = self.rng.choice(self.tgt["res"][self.segname])
        k = self.rng.choice([1, 2, 3, 16]) * self.tgt.get("res_mult", 1)
        units = max(1, u // self.g())
        if self.room() < (k + 4) * units:
            return
        pad = 1 if self.needs_pad(u, reserve=True) else 0
        lab = (self.mklabel(pad) + ":") if self.rng.random() < 0.3 else ""
        ln = self.add("%s\t%s %d" % (lab, d, k))
        self.pcs[self.segname] += pad            # reserved padding: listed without code, no MAP entry
        self.ev("r", k * u, ln)
        self.stats["reserve"] += 1

    def segsw(self):
        if self.phase or len(self.tgt["segs"]) < 2:
            return
        new = self.rng.choice([s for s in self.tgt["segs"] if s != self.segname])
        self.segname = new
        self.add("\tsegment %s" % new)
        if new not in self.pcs:
            self.pcs[new] = self.rng.choice(self.tgt["init"][new])
        self.add("\torg %d" % self.pc())
        self.stats["segsw"] += 1

    def padtoggle(self):
        if self.tgt["pad"] != "68k":
            return
        self.padding = not self.padding
        self.add("\tpadding %s" % ("on" if self.padding else "off"))
        self.stats["padtoggle"] += 1

    def macrodef(self):
        name = "mc%d" % len(self.macros)
        d = self.tgt["macro"][0]
        self.add("%s\tmacro a,b" % name)
        self.add("\t%s a" % d)
        self.add("\t%s b,a,b,a,b,a,b,a" % d)
        self.add("\tendm")
        self.macros.append(name)

    def macrocall(self):
        d, u = self.tgt["macro"]
        if not self.macros or self.segname != "code" or self.room() < 16 * u:
            return
        a, b = self.values(2, 255)
        ln = self.add("\t%s %d,%d" % (self.rng.choice(self.macros), a, b))
        self.emit("c", u, 1, ln)
        self.emit("c", u, 8, ln)
        self.stats["macro"] += 1

    def rept(self):
        ems = self.tgt["emit"][self.segname]
        if not ems:
            return
        d, u, mx = self.rng.choice(ems)
        k = self.rng.randrange(1, 4)
        n = self.rng.choice([1, 2, 7])
        if self.room() < (k * n + 4) * u:
            return
        self.add("\trept %d" % k)
        ln = self.add("\t%s %s" % (d, ",".join(str(v) for v in self.values(n, mx))))
        self.add("\tendm")
        for _ in range(k):
            self.emit("c", u, n, ln)
        self.stats["rept"] += 1

    def ifblk(self):
        ems = self.tgt["emit"][self.segname]
        if not ems or self.room() < 64:
            return
        d = ems[0][0]
        taken = self.rng.random() < 0.5
        self.add("\tif %d" % (1 if taken else 0))
        if taken:
            self.data()
        else:
            self.add("\t%s 1,2,3" % d)
        self.add("\telse")
        if taken:
            self.add("\t%s 4,5,6" % d)
        else:
            self.data()
        self.add("\tendif")
        self.stats["ifblk"] += 1

    def build(self):
        r = self.rng
        self.open(self.base + ".asm")
        self.add("\tcpu %s" % self.tgt["cpu"])
        if self.tgt["pad"]:
            self.add("\tpadding on")
        self.pcs["code"] = r.choice(self.tgt["org0"])
        self.add("\torg %d" % self.pcs["code"])
        self.macrodef()
        if r.random() < 0.5:
            self.macrodef()
        if self.overrun:
            self.big()
        kinds = [(self.data, 34), (self.reserve, 6), (self.org, 5), (self.segsw, 6), (self.phaseblk, 6), (self.macrocall, 8),
                 (self.rept, 5), (self.include, 5), (self.ifblk, 5), (self.listoff, 4), (self.equ, 6), (self.shared, 4), (self.padtoggle, 4), (self.big, self.bigw)]
        tot = sum(w for _, w in kinds)
        nst = r.randrange(6, self.size)
        fwd_done = False
        for i in range(nst):
            if not fwd_done and i == nst // 3:
                fwd_done = True
                self.nlab += 1
                fname = "lb%d" % self.nlab
                self.shared(forward=fname)
                self._fwd = fname
                continue
            x = r.randrange(tot)
            for f, w in kinds:
                if x < w:
                    f()
                    break
                x -= w
        if fwd_done:
            if self.segname != "code":
                self.segname = "code"
                self.add("\tsegment code")
            d, u = self.tgt["macro"]
            if self.room() > 8 * u:
                pad = 1 if self.needs_pad(u) else 0
                self.syms.append(dict(name=self._fwd, value=self.pc() + pad + self.phase, seg=self.labseg(), shared=True))
                ln = self.add("%s:\t%s 1,2" % (self._fwd, d))
                self.emit("c", u, 2, ln)
            else:
                self.syms.append(dict(name=self._fwd, value=119, seg="NOTHING", shared=True))
                self.add("%s\tequ 119" % self._fwd)
        while self.unshared:
            self.shared()
        return self


def run_wide(bdir, wd, rng, nprog, numradix_mode, driver_ok):
    """returns dict(spec_fail, corr_fail, agg, dist, samples, distinct)"""
    reqs, metas = [], []
    dist = {}
    nbig = max(8, nprog // 3)
    by_cpu = {t["cpu"]: t for t in WTARGETS}
    # programs that consist mostly of statements around the buffer sizes: every second one on the 68000 (all of its data
    # directives enlarge the buffer, values wider than a byte are stored most significant byte first), the others in turn
    big_cycle = ["68000", "TMS9900", "68000", "MSP430", "68000", "16C84", "68000", "CP-1600", "68000", "TMS9900", "68000", "320C25",
                 "68000", "80960", "68000", "ATMEGA8", "68000", "TMS9900", "68000", "320C30", "68000", "MSP430", "68000", "TMS9900"]
    overrun_cycle = ["MSP430", "CP-1600", "TMS9900", "320C25", "16C84", "80960", "ATMEGA8", "320C30"]
    for idx in range(nprog + nbig):
        base = "w%d" % idx
        if idx < nprog:
            tgt = WTARGETS[idx % len(WTARGETS)]
            p = ProgW(rng, base, 26 if idx % 4 else 50, tgt)
        else:
            bi = idx - nprog
            tgt = by_cpu[big_cycle[bi % len(big_cycle)]]
            p = ProgW(rng, base, 16, tgt)
            p.bigw = 60
            if bi % 8 == 7:
                # one statement larger than the line buffer with a directive that does not enlarge it (known finding)
                tgt = by_cpu[overrun_cycle[(bi // 8) % len(overrun_cycle)]]
                p = ProgW(rng, base, 12, tgt)
                p.bigw = 60
                p.overrun = True
        p = p.build()
        radix = 16 if rng.random() < 0.6 else rng.choice(c19.RADIX_POOL)
        shm = rng.choice(["p", "c", "a"])
        fmt = {"p": "pascal", "c": "c", "a": tgt["share_asm"]}[shm]
        for name, ls in p.files.items():
            open(os.path.join(wd, name), "w").write("\n".join(ls) + "\n")
        asm = os.path.join(wd, base + ".asm")
        args = ["-q", "-L", "-g", "MAP", "-" + shm, "-LISTRADIX", str(radix), "-olist", os.path.join(wd, base + ".lst"),
                "-shareout", os.path.join(wd, base + ".shr"), asm, "-o", os.path.join(wd, base + ".p")]
        rc, so, se = common.run_tool(bdir, "asl", args, wd, timeout=60)
        src_all = {n: "\n".join(ls) + "\n" for n, ls in p.files.items()}
        meta = dict(tag="wide:%d" % idx, cpu=tgt["cpu"], radix=radix, share=fmt, files=src_all, args=[a.replace(wd + "/", "") for a in args], stats=p.stats,
                    overrun=p.stats["overrun"] > 0)
        try:
            pf = open(os.path.join(wd, base + ".p"), "rb").read()
            lst = open(os.path.join(wd, base + ".lst"), encoding="latin-1").read()
            mp = open(os.path.join(wd, base + ".map"), encoding="latin-1").read()
            shr = open(os.path.join(wd, base + ".shr"), encoding="latin-1").read()
        except OSError as ex:
            meta["error"] = "asl rc=%s %s %s" % (rc, ex, (so + se).decode(errors="replace")[-300:])
            metas.append((meta, None))
            continue
        if rc != 0:
            meta["error"] = "asl rc=%s %s" % (rc, (so + se).decode(errors="replace")[-300:])
            metas.append((meta, None))
            continue
        src, sym = c19.strip_listing(lst)
        nr = radix if numradix_mode == "follows" else 16
        hx = c19.hx
        toks = ["r:%d" % radix, "n:%d" % nr, "f:" + fmt, "c:" + hx(tgt["cpu"]), "b:%d" % tgt["be"],
                "g:" + ",".join("%d=%d" % (SEGNO[s], g) for s, g in tgt["gran"].items()), "p:" + pf.hex()]
        toks += ["o:" + hx(n) for n in p.order]
        toks += ["x:%d,%d,%d,%d,%d,%d,%s,%s" % (e["seg"], e["load"], e["phase"], e["n"], e["depth"], e["line"], hx(e["file"]), e["kind"]) for e in p.events]
        toks += ["e:%s,%d,%s,%d" % (hx(s["name"]), s["value"], s["seg"], 1 if s["shared"] else 0) for s in p.syms]
        toks += ["l:" + hx(l) for l in src]
        toks += ["y:" + hx(l) for l in sym]
        toks += ["m:" + hx(l) for l in mp.split("\n") if l.strip()]
        toks += ["s:" + hx(l) for l in shr.split("\n") if l.strip()]
        reqs.append(" ".join(toks))
        meta["listing_head"] = src[:14]
        metas.append((meta, len(reqs) - 1))
        for k, v in p.stats.items():
            dist[k] = dist.get(k, 0) + v
        dist["radix_%s" % ("16" if radix == 16 else "other")] = dist.get("radix_%s" % ("16" if radix == 16 else "other"), 0) + 1
        dist["share_" + fmt] = dist.get("share_" + fmt, 0) + 1
        dist["cpu_" + tgt["cpu"]] = dist.get("cpu_" + tgt["cpu"], 0) + 1
    answers = common.driver("c19w", reqs, timeout=3600) if driver_ok and reqs else []
    spec_fail, corr_fail, samples = [], [], []
    agg = dict(programs=0, asl_rejected=0, listing_lines=0, code_groups=0, multi_line_groups=0, mixed_word_byte_groups=0,
               units_1byte=0, units_2byte=0, units_4byte=0, listed_bytes=0, hidden_bytes=0, map_entries=0, sym_list=0, sym_map=0, sym_share=0)
    combos = {}
    distinct = set()
    ways = [0, 0, 0]
    overrun_tags = {meta["tag"] for meta, _ in metas if meta["overrun"]}
    for meta, ri in metas:
        agg["programs"] += 1
        if ri is None:
            agg["asl_rejected"] += 1
            spec_fail.append(dict(tag=meta["tag"], why="asl rejected a valid generated program: " + meta.get("error", ""), files=meta["files"], args=meta["args"]))
            continue
        if ri >= len(answers):
            continue
        ans = answers[ri]
        kv = c19.kv_of(ans)
        if kv.get("pfile") != "ok":
            spec_fail.append(dict(tag=meta["tag"], why="driver: " + ans[:200], files=meta["files"], args=meta["args"]))
            continue
        for a, k in (("listing_lines", "lines"), ("code_groups", "code_groups"), ("multi_line_groups", "multi"), ("mixed_word_byte_groups", "mixed"),
                     ("units_1byte", "u1"), ("units_2byte", "u2"), ("units_4byte", "u4"), ("listed_bytes", "listed"), ("hidden_bytes", "hidden"),
                     ("map_entries", "map_entries"), ("sym_list", "nsym_list"), ("sym_map", "nsym_map"), ("sym_share", "nsym_share")):
            agg[a] += int(kv[k])
        if kv["combos"] != "-":
            for c in kv["combos"].split(","):
                key = "g:lg:turn=" + c
                combos[key] = combos.get(key, 0) + 1
        distinct.add((meta["cpu"], meta["radix"], meta["share"], kv["code_groups"], kv["listed"], kv["map_entries"]))
        brief = {k: v for k, v in kv.items() if k != "model_line"}
        if len(samples) < 3 and int(kv["multi"]) > 2:
            samples.append(dict(tag=meta["tag"], cpu=meta["cpu"], radix=meta["radix"], share=meta["share"], listing=meta["listing_head"], verdict=brief))
        common_f = dict(tag=meta["tag"], cpu=meta["cpu"], radix=meta["radix"], share=meta["share"], files=meta["files"], args=meta["args"], verdict=brief)
        if kv["row"] != "ok":
            corr_fail.append(dict(why="CPU %s has no row in Generated/ListParams.lean" % meta["cpu"], **common_f))
        if kv["spec_list"] != "ok" or kv["complete"] != "ok":
            if meta["radix"] != 16 and kv["diag16"] == "ok":
                spec_fail.append(dict(sig="listradix-ignored-for-address-and-code", why="address/code numerals of the listing are hexadecimal although -LISTRADIX %d was given (column widths follow the radix)" % meta["radix"], **common_f))
            else:
                spec_fail.append(dict(why="listing line does not state address/bytes of the code file (word-listed target): spec_list=%s complete=%s" % (kv["spec_list"], kv["complete"]), **common_f))
        elif kv["corr_list"] != "ok":
            corr_fail.append(dict(why="MakeList model (general Gran/ListGran) text differs from the real listing: " + kv["corr_list"], model_line=kv.get("model_line"), **common_f))
        elif kv["corr_store"] != "ok":
            corr_fail.append(dict(why="WriteBytes model: the record does not receive the statement's bytes of the code file: " + kv["corr_store"], **common_f))
        for j, w in enumerate(kv["ways"].split(",")):
            ways[j] += int(w)
        if kv["spec_map"] != "ok" or kv["map_all"] != "ok" or kv["map_bad_lines"] != "0":
            spec_fail.append(dict(why="MAP line info (word-addressed target): spec_map=%s map_all=%s bad_lines=%s" % (kv["spec_map"], kv["map_all"], kv["map_bad_lines"]), **common_f))
        elif kv["corr_map"] != "ok":
            corr_fail.append(dict(why="AddLineInfo ordering model differs from the real MAP file", **common_f))
        for key, what in (("sym_list", "listing symbol table"), ("sym_map", "MAP symbol section"), ("sym_share", "share file")):
            if kv[key] != "ok":
                spec_fail.append(dict(why="%s does not give the symbol's final value: %s" % (what, kv[key]), **common_f))
        if kv["sym_map_nothing"] != "ok":
            spec_fail.append(dict(sig="map-symbols-without-segment-omitted", why="MAP file has no 'Symbols in Segment NOTHING' section: " + kv["sym_map_nothing"], **common_f))
    dist["model_parameter_combinations"] = combos
    dist["writebytes_ways(append,flush+buffer,write-through)"] = ways
    # a program with a statement that overruns the line buffer: whatever goes wrong in it is that finding
    for f in spec_fail:
        if f.get("tag") in overrun_tags:
            f["sig"] = OVERRUN_SIG
            f["why"] = "one statement of more than MaxCodeLen bytes with a data directive that does not call SetMaxCodeLen (heap overrun of BAsmCode): " + f["why"]
    for f in [f for f in corr_fail if f.get("tag") in overrun_tags]:
        corr_fail.remove(f)
        spec_fail.append(dict(f, sig=OVERRUN_SIG, why="(after a heap overrun of BAsmCode) " + f["why"]))
    return dict(spec_fail=spec_fail, corr_fail=corr_fail, agg=agg, dist=dist, samples=samples, distinct=distinct)


def table_combos():
    """(g, lg, TurnWords) combinations of Generated/ListParams.lean with the number of (CPU, segment) pairs (reporting only)"""
    import re
    p = os.path.join(common.LEAN_DIR, "AslModel", "Generated", "ListParams.lean")
    out = {}
    try:
        txt = open(p).read()
    except OSError:
        return out
    for m in re.finditer(r"⟨\[(.*?)\], (\d+), (true|false), \[(.*?)\]⟩", txt):
        ncpu = len(m.group(1).split(","))
        for sg in re.finditer(r"\((\d+), (\d+), (\d+)\)", m.group(4)):
            key = "g:lg:turn=%s:%s:%d" % (sg.group(2), sg.group(3), 1 if m.group(3) == "true" else 0)
            out[key] = out.get(key, 0) + ncpu
    return out
