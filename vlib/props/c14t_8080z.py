"""C14 target plug-in: Intel 8080 / 8085 (code85.c) with `Z80SYNTAX ON` and `Z80SYNTAX EXCLUSIVE` - the Z80-style mnemonics
(LD PUSH POP EX ADD ADC SUB SBC AND XOR OR CP INC DEC JP CALL RET RST IN OUT RLCA RRCA RLA RRA CPL SCF CCF DAA EI DI NOP HALT)
built on the operand decoder DecodeAdr_Z80.

CPU index: 0 = 8080 / ON, 1 = 8085 / ON, 2 = 8080 / EXCLUSIVE, 3 = 8085 / EXCLUSIVE.
Operand values handed to the driver: a sequence of pairs `kind value` - 0 = 8-bit register name B C D E H L M A (0..7; other
numbers: a text that is no register), 1 = BC DE HL SP, 2 = (BC) (DE) (HL) (SP), 3 = (nn), 4 = number, 5 = AF, 6 = IM,
7 = condition NZ Z NC C PO PE P M.  SPEC = the Intel opcode map (Spec/Isa/I8080.lean) on the 8080 spelling of the statement.

Not generated (spellings that are neither Zilog's nor Intel's but that code85.c happens to take; the SPEC has no opinion that
could be defended from the manual): the register name `M` in two-operand statements of the non-exclusive mode (`SUB A,M`), a port
without parentheses after `IN A,` / before `,A` of OUT, a parenthesised number where a plain number is expected (`RST (8)`),
`PUSH PSW` (Intel spelling: target 8080), the register names `C` / `M` in the condition position (they ARE the conditions).
These are exactly the statements outside `Spec.I8080Z.canonical`, the hypothesis of the theorems `C14_8080z_sound` /
`C14_8080z_range` (Props/C14_8080Z.lean: all mnemonics, all operand lists, all values); the driver refuses to judge a request
outside it ("out-of-scope"), which this check reports as a failure - the generator must stay inside what the theorems cover.
"""
from .c14 import Case, limits, num_intel

GENERATED = ["Isa_8080Z"]

R8 = "BCDEHLMA"
R16 = ["BC", "DE", "HL", "SP"]
CC = ["NZ", "Z", "NC", "C", "PO", "PE", "P", "M"]


def lc(rng, t):
    return t.lower() if rng.random() < 0.35 else t


def o_r8(rng, r):
    return ([0, r], lc(rng, R8[r]) if 0 <= r <= 7 else ["X", "I", "IXH", "Q"][r % 4])


def o_r16(rng, p):
    return ([1, p], lc(rng, R16[p]) if 0 <= p <= 3 else ["IX", "IY", "HX"][p % 3])


def o_ind(rng, p):
    return ([2, p], "(%s)" % (lc(rng, R16[p]) if 0 <= p <= 3 else ["IX", "IY", "HX"][p % 3]))


def o_abs(rng, a):
    return ([3, a], "(%s)" % num_intel(rng, a))


def o_imm(rng, v):
    return ([4, v], num_intel(rng, v))


def o_af(rng):
    return ([5, 0], lc(rng, "AF"))


def o_im(rng):
    return ([6, 0], lc(rng, "IM"))


def o_cond(rng, c):
    return ([7, c], lc(rng, CC[c]) if 0 <= c <= 7 else ["NX", "Q", "GE"][c % 3])


class T:
    name = "8080z"
    cpus = [("8080+on", 0), ("8085+on", 1), ("8080+exclusive", 2), ("8085+exclusive", 3)]
    sentinel = 0xF000
    gran = 1
    sample_tags = ("ld-mem-imm", "ld-imm", "acc-imm", "jp", "rst")

    @staticmethod
    def header(cpuname):
        cpu, mode = cpuname.split("+")
        return ["\tcpu %s" % cpu, "\tz80syntax %s" % mode]

    @staticmethod
    def org(a):
        return "\torg %d" % a

    @staticmethod
    def sent(k):
        return "\tdb %d" % (k % 100 + 1)

    @staticmethod
    def sent_bytes(k):
        return bytes([k % 100 + 1])

    @classmethod
    def cases(cls, rng, tier, forms):
        out = []
        quick = tier == "quick"

        def add(cpu, mn, opds, tag):
            args = [x for (a, _t) in opds for x in a]
            text = ",".join(t for (_a, t) in opds)
            out.append(Case("8080z", cpu, rng.choice([0, 0x100, 0x1234, 0xefe0]), mn, args,
                            "\t%s %s" % (mn.lower() if rng.random() < 0.5 else mn, text), tag))

        def v8():
            """8-bit data: at and around both limits, and values that only fit 16 bits"""
            return sorted(set(limits(-128, 255, rng, 6) + [256, 257, 0x1234, 0x7fff, 0x8000, 0xff00, 65535, 65536, -129, -256, -32768, -32769,
                                                              rng.randrange(256, 65536), -rng.randrange(129, 32769)]))

        def v16():
            return sorted(set(limits(-32768, 65535, rng, 8) + [255, 256, 32767, 32768, 65534]))

        def a16():
            return sorted(set(limits(0, 65535, rng, 6, wide=False) + [255, 256, 32767, 32768, -32768, 65537, rng.randrange(65536)]))

        for cpu in range(4):
            excl = cpu >= 2
            r8s = [r for r in range(8) if not (r == 6 and not excl)] + [9]       # `M` in two-operand statements: exclusive mode only (see above)
            for (mn, form, _c) in forms:
                R = rng
                if form == "fixed":
                    add(cpu, mn, [], "fixed")
                    add(cpu, mn, [o_imm(R, 1)], "argcnt")
                elif form == "ld":
                    dests = [o_r8(R, r) for r in r8s] + [o_r16(R, p) for p in range(5)] + [o_ind(R, p) for p in range(5)] + \
                            [o_abs(R, a) for a in (0, 0x1234, 65535)] + [o_im(R), o_imm(R, 5), o_af(R)]
                    for d in dests:
                        srcs = [o_r8(R, r) for r in r8s] + [o_r16(R, p) for p in range(5)] + [o_ind(R, p) for p in range(5)] + \
                               [o_abs(R, a) for a in (0, 0x4321, 65535)] + [o_im(R), o_af(R)] + [o_imm(R, v) for v in (0, 0x12, 255, 256, 0x1234, -1, 65535)]
                        for s_ in srcs:
                            add(cpu, mn, [d, s_], "ld")
                    # immediates and addresses at and around the limits of their fields, for every destination that takes one
                    for r in list(range(8)):
                        for v in (v8() if r in (0, 5, 7) or not quick else limits(-128, 255, rng, 2, wide=False) + [256, 0x1234]):
                            add(cpu, mn, [o_r8(R, r), o_imm(R, v)], "ld-imm")
                    for v in v8() + (list(range(-140, 270)) if not quick else []):
                        add(cpu, mn, [o_ind(R, 2), o_imm(R, v)], "ld-mem-imm")
                    for p in range(3):
                        if p != 2:
                            for v in (0, 255, 256, -1):
                                add(cpu, mn, [o_ind(R, p), o_imm(R, v)], "ld-mem-imm")
                    for p in range(4):
                        for v in (v16() if p in (2, 3) or not quick else limits(-32768, 65535, rng, 2)):
                            add(cpu, mn, [o_r16(R, p), o_imm(R, v)], "ld-imm16")
                    for a in a16():
                        add(cpu, mn, [o_r8(R, 7), o_abs(R, a)], "ld-abs")
                        add(cpu, mn, [o_abs(R, a), o_r8(R, 7)], "ld-abs")
                        add(cpu, mn, [o_r16(R, 2), o_abs(R, a)], "ld-abs")
                        add(cpu, mn, [o_abs(R, a), o_r16(R, 2)], "ld-abs")
                    add(cpu, mn, [o_r8(R, 7)], "argcnt")
                    add(cpu, mn, [o_r8(R, 7), o_r8(R, 0), o_r8(R, 1)], "argcnt")
                elif form == "stack":
                    for o in [o_r16(R, p) for p in range(5)] + [o_af(R), o_im(R), o_imm(R, 1), o_ind(R, 2), o_abs(R, 5)] + [o_r8(R, r) for r in range(8)]:
                        add(cpu, mn, [o], "stack")
                    add(cpu, mn, [], "argcnt")
                elif form == "ex":
                    ops = lambda: [o_r16(R, p) for p in range(4)] + [o_ind(R, p) for p in range(4)] + [o_af(R), o_r8(R, 7), o_imm(R, 1)]
                    for a in ops():
                        for c_ in ops():
                            add(cpu, mn, [a, c_], "ex")
                    add(cpu, mn, [o_r16(R, 1)], "argcnt")
                elif form in ("acc2", "acc"):
                    def seconds():
                        return [o_r8(R, r) for r in r8s] + [o_ind(R, p) for p in range(5)] + [o_r16(R, p) for p in range(4)] + \
                               [o_abs(R, 5), o_af(R)] + [o_imm(R, v) for v in (0, 1, 255, 256, -128, -129)]
                    for first in [o_r8(R, 7), o_r8(R, 0), o_r16(R, 2), o_r16(R, 0), o_ind(R, 2), o_imm(R, 1)]:
                        for s_ in seconds():
                            add(cpu, mn, [first, s_], "acc")
                    one = [o_r8(R, r) for r in range(8)] + [o_r8(R, 9)] + [o_ind(R, p) for p in range(5)] + [o_r16(R, p) for p in range(4)] + [o_abs(R, 5), o_af(R)]
                    for s_ in one:
                        add(cpu, mn, [s_], "acc-1")
                    vals = sorted(set(v8() + (v16() if mn == "CP" else [])))
                    for v in vals:
                        add(cpu, mn, [o_r8(R, 7), o_imm(R, v)], "acc-imm")
                        add(cpu, mn, [o_imm(R, v)], "acc-imm-1")
                    add(cpu, mn, [], "argcnt")
                    add(cpu, mn, [o_r8(R, 7), o_r8(R, 0), o_r8(R, 1)], "argcnt")
                elif form == "incdec":
                    for o in [o_r8(R, r) for r in r8s] + [o_r16(R, p) for p in range(5)] + [o_ind(R, p) for p in range(5)] + [o_imm(R, 1), o_abs(R, 5), o_af(R)]:
                        add(cpu, mn, [o], "incdec")
                    add(cpu, mn, [], "argcnt")
                elif form in ("jp", "call"):
                    for v in v16():
                        add(cpu, mn, [o_imm(R, v)], form)
                        c_ = rng.randrange(8)
                        add(cpu, mn, [o_cond(R, c_), o_imm(R, v)], form)
                    for c_ in range(0, 10):
                        add(cpu, mn, [o_cond(R, c_), o_imm(R, rng.randrange(65536))], form + "-cond")
                        add(cpu, mn, [o_cond(R, c_), o_ind(R, 2)], form + "-cond")
                    for o in [o_ind(R, p) for p in range(5)] + [o_r16(R, 2), o_r8(R, 7), o_abs(R, 0x1234), o_af(R)]:
                        add(cpu, mn, [o], form + "-ind")
                    for r in (0, 2, 7):
                        add(cpu, mn, [o_r8(R, r), o_imm(R, 0x100)], form + "-cond")
                    add(cpu, mn, [], "argcnt")
                elif form == "ret":
                    add(cpu, mn, [], "ret")
                    for c_ in range(0, 10):
                        add(cpu, mn, [o_cond(R, c_)], "ret")
                    for o in (o_imm(R, 1), o_r8(R, 0), o_ind(R, 2)):
                        add(cpu, mn, [o], "ret")
                    add(cpu, mn, [o_cond(R, 1), o_cond(R, 2)], "argcnt")
                elif form == "rst":
                    for n in list(range(-2, 70)) + [255, 256, 65535, -128]:
                        add(cpu, mn, [o_imm(R, n)], "rst")
                    add(cpu, mn, [o_r8(R, 7)], "rst")
                    add(cpu, mn, [], "argcnt")
                elif form == "io":
                    ports = sorted(set(limits(0, 255, rng, 6) + [-128, 127, 128]))
                    for n in ports:
                        pair = [o_r8(R, 7), o_abs(R, n)]
                        add(cpu, mn, pair if mn == "IN" else pair[::-1], "io")
                        add(cpu, mn, [o_imm(R, n)], "io-1")
                    for r in (0, 5):
                        pair = [o_r8(R, r), o_abs(R, 0x12)]
                        add(cpu, mn, pair if mn == "IN" else pair[::-1], "io")
                    for o in (o_ind(R, 0), o_r16(R, 2), o_af(R)):
                        pair = [o_r8(R, 7), o]
                        add(cpu, mn, pair if mn == "IN" else pair[::-1], "io")
                    pair = [o_r8(R, 7), o_abs(R, 5)]
                    add(cpu, mn, pair[::-1] if mn == "IN" else pair, "io")      # operands the wrong way round
                    add(cpu, mn, [], "argcnt")
                else:
                    raise AssertionError("8080z: unknown operand form %s of the spec" % form)
        return out

    @staticmethod
    def sig(case, kv):
        return None
