"""C19 - listing, debug map and share file state the facts of the code file."""
import json
import os
import re
import shutil

from .. import common
from ..common import log

# byte-granular targets whose listing is byte-wise (Granularity() = ActListGran = 1)
TARGETS = [
    dict(cpu="z80", db="db", ds="ds", segs={"code": (1, 0xffff)}, share_asm="asmIntel", rep="dup"),
    dict(cpu="6502", db="byt", ds="dfs", segs={"code": (1, 0xffff)}, share_asm="asmMoto", rep="moto"),
    dict(cpu="8051", db="db", ds="ds", share_asm="asmIntel", rep="dup",
         segs={"code": (1, 0xffff), "data": (2, 0xff), "xdata": (4, 0xffff), "idata": (3, 0xff)}),
    dict(cpu="8086", db="db", ds="ds", segs={"code": (1, 0xffff)}, share_asm="asmIntel", rep="dup"),
]
# statements as large as / larger than the buffers of the writer and the lister (asmcode.c CodeBufferSize = 512,
# asmdef.h MaxCodeLen_Ini = 256): sizes in bytes of ONE statement
BIG_POOL = [254, 255, 256, 257, 258, 300, 384, 500, 508, 510, 511, 512, 513, 514, 516, 520, 600, 700, 767, 768, 769, 1000,
            1022, 1023, 1024, 1025, 1026, 1100]
STR_CHARS = "ABCDEFGHIJKLMNOPQRSTUVWXYZabcdefghijklmnopqrstuvwxyz0123456789"


def big_size(rng):
    return rng.choice(BIG_POOL) if rng.random() < 0.6 else rng.randrange(130, 1300)


def render_big(rng, style, u, nbytes, values):
    """operand text of one data statement of about `nbytes` bytes (elements of `u` bytes) -> (text, bytes emitted).
    styles: `moto` = `[count]value` per operand (doc/pseudo-instructions.md, DC), `dup` = `count DUP (values)` (Intel DB),
    `list` = plain operand list (at most 470 operands), `str` = strings and numbers (bytes), `zero` = `ZERO n` (PIC)"""
    n = max(1, nbytes // u)
    if style == "zero":
        return str(n), n * u
    if style == "list":
        n = min(n, 470)
        return ",".join(str(v) for v in values(n)), n * u
    if style == "str":
        ops, tot = [], 0
        while tot < n and len(ops) < 400:
            if rng.random() < 0.75 and n - tot >= 2:
                k = min(n - tot, rng.randrange(2, 61))
                ops.append('"%s"' % "".join(rng.choice(STR_CHARS) for _ in range(k)))
                tot += k
            else:
                ops.append(str(values(1)[0]))
                tot += 1
        return ",".join(ops), tot * u
    # repeat counts: split n over 1..3 repeated operands (+ sometimes plain ones in between)
    parts = rng.choice([1, 1, 2, 3])
    cuts = sorted(rng.randrange(1, n) for _ in range(parts - 1)) if n > parts else []
    cnts = [b - a for a, b in zip([0] + cuts, cuts + [n]) if b - a > 0]
    ops, tot = [], 0
    for c in cnts:
        if style == "moto":
            if u == 1 and c >= 2 and rng.random() < 0.3:
                ops.append('[%d]"%s"' % (c // 2, "".join(rng.choice(STR_CHARS) for _ in range(2))))
                tot += c // 2 * 2
            else:
                ops.append("[%d]%d" % (c, values(1)[0]))
                tot += c
        else:
            k = rng.choice([1, 1, 2, 3])
            if c < k:
                k = 1
            ops.append("%d dup (%s)" % (c // k, ",".join(str(v) for v in values(k))))
            tot += c // k * k
        if rng.random() < 0.3:
            ops.append(str(values(1)[0]))
            tot += 1
    return ",".join(ops), tot * u

LEN_POOL = [1, 1, 2, 3, 5, 6, 6, 7, 8, 12, 13, 18, 19, 24, 25, 40]
EQU_POOL = [0, 1, 9, 10, 255, 256, 0x1234, 65535, 65536, 2 ** 31, 2 ** 32 + 5, -1, -2, -32768, 2 ** 63 - 1, 0xabcdef]
RADIX_POOL = [2, 3, 7, 8, 10, 15, 17, 32, 36]


class Prog:
    """generator state: source files, expected emission events, expected symbols"""

    def __init__(self, rng, base, size):
        self.rng = rng
        self.base = base
        self.tgt = rng.choice(TARGETS)
        self.files = {}
        self.order = []
        self.stack = []
        self.events = []
        self.syms = []          # dict(name, value, seg, shared)
        self.segname = "code"
        self.pcs = {}
        self.phase = 0
        self.nlab = 0
        self.ninc = 0
        self.macros = []
        self.stats = dict(data=0, longdata=0, reserve=0, org=0, segsw=0, phase=0, macro=0, rept=0, include=0,
                          ifblk=0, listoff=0, equ=0, shared=0, labels=0)
        self.unshared = []
        self.size = size
        self.bigw = 2
        self.stats["big"] = 0
        self.stats["big_ge512"] = 0

    # -- plumbing
    def cur(self):
        return self.stack[-1]

    def add(self, line):
        self.files[self.cur()].append(line)
        return len(self.files[self.cur()])

    def open(self, name):
        self.files[name] = []
        self.order.append(name)
        self.stack.append(name)

    def seg(self):
        return self.tgt["segs"][self.segname]

    def pc(self):
        return self.pcs[self.segname]

    def room(self):
        return self.seg()[1] - (self.pc() + self.phase)

    def ev(self, kind, n, line):
        self.events.append(dict(seg=self.seg()[0], load=self.pc(), phase=self.phase, n=n, depth=len(self.stack) - 1,
                                line=line, file=self.cur(), kind=kind))
        self.pcs[self.segname] += n

    def label(self):
        self.nlab += 1
        name = "lb%d" % self.nlab
        self.syms.append(dict(name=name, value=self.pc() + self.phase, seg=self.segname.upper(), shared=False))
        self.unshared.append(name)
        self.stats["labels"] += 1
        return name

    def vals(self, n):
        r = self.rng
        return [r.choice([0, 1, 9, 10, 15, 16, 99, 100, 127, 128, 254, 255]) if r.random() < 0.3 else r.randrange(256) for _ in range(n)]

    # -- statements
    def data(self, kind="c", n=None):
        r = self.rng
        if n is None:
            n = r.choice(LEN_POOL)
        n = max(1, min(n, self.room() - 2))
        if self.room() < 4:
            return
        lab = (self.label() + ":") if r.random() < 0.3 else ""
        ln = self.add("%s\t%s %s" % (lab, self.tgt["db"], ",".join(str(v) for v in self.vals(n))))
        self.ev(kind, n, ln)
        self.stats["data"] += 1
        if n > 6:
            self.stats["longdata"] += 1

    def big(self, kind="c"):
        """one statement of 130..1300 bytes (repeat syntax of the target)"""
        r = self.rng
        nb = big_size(r)
        if self.room() < nb + 8:
            return self.data(kind)
        text, n = render_big(r, self.tgt["rep"], 1, nb, self.vals)
        lab = (self.label() + ":") if r.random() < 0.3 else ""
        ln = self.add("%s\t%s %s" % (lab, self.tgt["db"], text))
        self.ev(kind, n, ln)
        self.stats["big"] += 1
        self.stats["longdata"] += 1
        if n >= 512:
            self.stats["big_ge512"] += 1

    def reserve(self):
        k = self.rng.choice([1, 2, 3, 16])
        if self.room() < k + 4:
            return
        lab = (self.label() + ":") if self.rng.random() < 0.3 else ""
        ln = self.add("%s\t%s %d" % (lab, self.tgt["ds"], k))
        self.ev("r", k, ln)
        self.stats["reserve"] += 1

    def org(self):
        if self.phase or self.room() < 600:
            return
        gap = self.rng.choice([1, 2, 16, 255, 256])
        self.pcs[self.segname] += gap
        self.add("\torg %d" % self.pc())
        self.stats["org"] += 1

    def segsw(self):
        if self.phase or len(self.tgt["segs"]) < 2:
            return
        new = self.rng.choice([s for s in self.tgt["segs"] if s != self.segname])
        self.segname = new
        self.add("\tsegment %s" % new)
        if new not in self.pcs:
            self.pcs[new] = self.rng.choice([0x30, 0x40]) if new in ("data", "idata") else self.rng.choice([0, 0x20, 0x1000])
        self.add("\torg %d" % self.pc())
        self.stats["segsw"] += 1

    def phaseblk(self):
        if self.phase or self.room() < 0x3000:
            return
        delta = self.rng.choice([1, 0x100, 0x1000, 0x2000])
        self.phase = delta
        self.add("\tphase %d" % (self.pc() + delta))
        for _ in range(self.rng.randrange(1, 4)):
            self.rng.choice([self.data, self.data, self.reserve, self.macrocall])()
        self.add("\tdephase")
        self.phase = 0
        self.stats["phase"] += 1

    def macrodef(self):
        name = "mc%d" % len(self.macros)
        self.add("%s\tmacro a,b" % name)
        self.add("\t%s a" % self.tgt["db"])
        self.add("\t%s b,a,b,a,b,a,b,a" % self.tgt["db"])
        self.add("\tendm")
        self.macros.append(name)

    def macrocall(self):
        if not self.macros or self.room() < 16:
            return
        a, b = self.vals(2)
        ln = self.add("\t%s %d,%d" % (self.rng.choice(self.macros), a, b))
        self.ev("c", 1, ln)
        self.ev("c", 8, ln)
        self.stats["macro"] += 1

    def rept(self):
        k = self.rng.randrange(1, 4)
        n = self.rng.choice([1, 2, 7])
        if self.room() < k * n + 4:
            return
        self.add("\trept %d" % k)
        ln = self.add("\t%s %s" % (self.tgt["db"], ",".join(str(v) for v in self.vals(n))))
        self.add("\tendm")
        for _ in range(k):
            self.ev("c", n, ln)
        self.stats["rept"] += 1

    def ifblk(self):
        if self.room() < 64:
            return
        taken = self.rng.random() < 0.5
        self.add("\tif %d" % (1 if taken else 0))
        if taken:
            self.data()
        else:
            self.add("\t%s 1,2,3" % self.tgt["db"])
        self.add("\telse")
        if taken:
            self.add("\t%s 4,5,6" % self.tgt["db"])
        else:
            self.data()
        self.add("\tendif")
        self.stats["ifblk"] += 1

    def listoff(self):
        if len(self.stack) > 1 or self.room() < 64:
            return
        self.add("\tlisting off")
        for _ in range(self.rng.randrange(1, 3)):
            if self.rng.random() < 0.15:
                self.big(kind="h")
            else:
                self.data(kind="h")
        self.add("\tlisting on")
        self.stats["listoff"] += 1

    def equ(self):
        name = "cn%d" % (len(self.syms) + 1)
        v = self.rng.choice(EQU_POOL) if self.rng.random() < 0.7 else self.rng.randrange(1 << 20)
        self.add("%s\tequ %d" % (name, v))
        self.syms.append(dict(name=name, value=v % (1 << 64), seg="NOTHING", shared=False))
        self.unshared.append(name)
        self.stats["equ"] += 1

    def shared(self, forward=None):
        names = []
        while self.unshared and len(names) < 5:
            names.append(self.unshared.pop(0))
        if forward:
            names.append(forward)
        if not names:
            return
        for s in self.syms:
            if s["name"] in names:
                s["shared"] = True
        self.add("\tshared %s" % ",".join(names))
        self.stats["shared"] += 1

    def include(self):
        if len(self.stack) > 2 or self.ninc >= 3:
            return
        name = "%s_i%d.inc" % (self.base, self.ninc)
        self.ninc += 1
        self.add('\tinclude "%s"' % name)
        self.open(name)
        for _ in range(self.rng.randrange(1, 6)):
            self.rng.choice([self.data, self.data, self.reserve, self.equ, self.macrocall, self.include, self.rept])()
        self.stack.pop()
        self.stats["include"] += 1

    def build(self):
        r = self.rng
        self.open(self.base + ".asm")
        self.add("\tcpu %s" % self.tgt["cpu"])
        self.pcs["code"] = r.choice([0, 0, 0x100, 0x1000, 0xfff0 - 0x4000])
        self.add("\torg %d" % self.pcs["code"])
        self.macrodef()
        if r.random() < 0.5:
            self.macrodef()
        kinds = [(self.data, 30), (self.reserve, 6), (self.org, 5), (self.segsw, 6), (self.phaseblk, 6), (self.macrocall, 8),
                 (self.rept, 5), (self.include, 5), (self.ifblk, 5), (self.listoff, 4), (self.equ, 8), (self.shared, 4), (self.big, self.bigw)]
        tot = sum(w for _, w in kinds)
        nst = r.randrange(6, self.size)
        fwd_done = False
        for i in range(nst):
            if not fwd_done and i == nst // 3:
                # SHARED of a symbol that is defined further down (value must be the final one)
                fwd_done = True
                self.nlab += 1
                fname = "lb%d" % self.nlab
                self.shared(forward=fname)
                self._fwd = fname
                continue
            x = r.randrange(tot)
            for f, w in kinds:
                if x < w:
                    f()
                    break
                x -= w
        if fwd_done:
            if self.segname != "code":
                self.segname = "code"
                self.add("\tsegment code")
            if self.room() > 8:
                self.syms.append(dict(name=self._fwd, value=self.pc() + self.phase, seg="CODE", shared=True))
                ln = self.add("%s:\t%s 1,2" % (self._fwd, self.tgt["db"]))
                self.ev("c", 2, ln)
            else:
                self.syms.append(dict(name=self._fwd, value=0x77, seg="NOTHING", shared=True))
                self.add("%s\tequ 77h" % self._fwd if self.tgt["cpu"] != "6502" else "%s\tequ $77" % self._fwd)
        while self.unshared:
            self.shared()
        return self


def strip_listing(text):
    """(source-part lines, symbol-table lines) of a listing, page headers/form feeds removed"""
    lines = text.split("\n")
    body = []
    i = 0
    n = len(lines)
    first = True
    while i < n:
        l = lines[i]
        if first or l.startswith("\f"):
            first = False
            i += 1
            while i < n and lines[i].strip() == "":
                i += 1
            continue
        body.append(l)
        i += 1
    src = []
    sym = []
    mode = "src"
    for l in body:
        if mode == "src":
            if l.startswith("  Symbol Table (* = unused)") or l.startswith("  Symboltabelle"):
                mode = "symhead"
                continue
            if l.startswith("  Code Pages:") or l.startswith("  Codepages:") or l.startswith("  Defined Macros:") or l.startswith("  Defined Functions:") or l.startswith("  Register Definitions") or l.startswith("  Space Used in") or l.startswith("  Cross Reference List:"):
                mode = "done"
                continue
            if l.strip() == "":
                continue
            src.append(l)
        elif mode == "symhead":
            if l.startswith("  ----"):
                mode = "sym"
        elif mode == "sym":
            if re.match(r"^\s+\d+ symbols?$", l):
                mode = "done"
            elif l.strip():
                sym.append(l)
    return src, sym


def hx(s):
    b = s.encode("latin-1", errors="replace") if isinstance(s, str) else s
    return b.hex() if b else "-"


def probe_num_radix(bdir, wd):
    """does the binary print address/code numerals in the list radix?  (self-calibration of the MODEL only)"""
    f = os.path.join(wd, "probe.asm")
    open(f, "w").write("\tcpu z80\n\torg 20\n\tdb 10\n")
    rc, so, se = common.run_tool(bdir, "asl", ["-q", "-L", "-LISTRADIX", "10", "-olist", os.path.join(wd, "probe.lst"), f, "-o", os.path.join(wd, "probe.p")], wd)
    try:
        txt = open(os.path.join(wd, "probe.lst"), encoding="latin-1").read()
    except OSError:
        return None
    for l in txt.split("\n"):
        if "db 10" in l:
            if " 010 " in l and "  20 :" in l:
                return "follows"
            if " 00A " in l:
                return "hex"
    return None


def kv_of(ans):
    return dict(x.split("=", 1) for x in ans.split() if "=" in x)


def run_generated(bdir, wd, rng, nprog, numradix_mode, res_stats):
    reqs = []
    metas = []
    for idx in range(nprog):
        base = "g%d" % idx
        p = Prog(rng, base, 28 if idx % 4 else 60)
        if idx % 10 == 9:
            p.bigw, p.size = 45, 16          # every tenth program: mostly statements around the buffer sizes
        p = p.build()
        radix = 16 if rng.random() < 0.6 else rng.choice(RADIX_POOL)
        shm = rng.choice(["p", "c", "a"])
        fmt = {"p": "pascal", "c": "c", "a": p.tgt["share_asm"]}[shm]
        for name, ls in p.files.items():
            open(os.path.join(wd, name), "w").write("\n".join(ls) + "\n")
        asm = os.path.join(wd, base + ".asm")
        args = ["-q", "-L", "-g", "MAP", "-" + shm, "-LISTRADIX", str(radix), "-olist", os.path.join(wd, base + ".lst"),
                "-shareout", os.path.join(wd, base + ".shr"), asm, "-o", os.path.join(wd, base + ".p")]
        rc, so, se = common.run_tool(bdir, "asl", args, wd, timeout=60)
        src_all = {n: "\n".join(ls) + "\n" for n, ls in p.files.items()}
        meta = dict(tag="gen:%d" % idx, cpu=p.tgt["cpu"], radix=radix, share=fmt, files=src_all, args=[a.replace(wd + "/", "") for a in args], stats=p.stats)
        try:
            pf = open(os.path.join(wd, base + ".p"), "rb").read()
            lst = open(os.path.join(wd, base + ".lst"), encoding="latin-1").read()
            mp = open(os.path.join(wd, base + ".map"), encoding="latin-1").read()
            shr = open(os.path.join(wd, base + ".shr"), encoding="latin-1").read()
        except OSError as ex:
            meta["error"] = "asl rc=%s %s %s" % (rc, ex, (so + se).decode(errors="replace")[-300:])
            metas.append((meta, None))
            continue
        if rc != 0:
            meta["error"] = "asl rc=%s %s" % (rc, (so + se).decode(errors="replace")[-300:])
            metas.append((meta, None))
            continue
        src, sym = strip_listing(lst)
        nr = radix if numradix_mode == "follows" else 16
        toks = ["r:%d" % radix, "n:%d" % nr, "f:" + fmt, "p:" + pf.hex()]
        toks += ["o:" + hx(n) for n in p.order]
        toks += ["x:%d,%d,%d,%d,%d,%d,%s,%s" % (e["seg"], e["load"], e["phase"], e["n"], e["depth"], e["line"], hx(e["file"]), e["kind"]) for e in p.events]
        toks += ["e:%s,%d,%s,%d" % (hx(s["name"]), s["value"], s["seg"], 1 if s["shared"] else 0) for s in p.syms]
        toks += ["l:" + hx(l) for l in src]
        toks += ["y:" + hx(l) for l in sym]
        toks += ["m:" + hx(l) for l in mp.split("\n") if l.strip()]
        toks += ["s:" + hx(l) for l in shr.split("\n") if l.strip()]
        reqs.append(" ".join(toks))
        meta["listing_head"] = src[:12]
        metas.append((meta, len(reqs) - 1))
        for k, v in p.stats.items():
            res_stats[k] = res_stats.get(k, 0) + v
        res_stats["radix_%s" % ("16" if radix == 16 else "other")] = res_stats.get("radix_%s" % ("16" if radix == 16 else "other"), 0) + 1
        res_stats["share_" + fmt] = res_stats.get("share_" + fmt, 0) + 1
        res_stats["cpu_" + p.tgt["cpu"]] = res_stats.get("cpu_" + p.tgt["cpu"], 0) + 1
    return reqs, metas


def corpus_request(bdir, wd, name, asm, flags):
    """assemble a copy of a golden test with -L -g MAP; returns (request, info) or (None, reason)"""
    d = os.path.join(wd, "c_" + name)
    shutil.copytree(os.path.dirname(asm), d)
    a = os.path.join(d, os.path.basename(asm))
    base = os.path.join(d, name)
    args = list(flags) + ["-q", "-i", os.path.join(common.REPO, "include"), "-L", "-g", "MAP", "-olist", base + ".lst", a, "-o", base + ".p", "-shareout", base + ".h"]
    rc, so, se = common.run_tool(bdir, "asl", args, d, timeout=120)
    try:
        pf = open(base + ".p", "rb").read()
        lst = open(base + ".lst", encoding="latin-1").read()
        mp = open(base + ".map", encoding="latin-1").read()
    except OSError:
        shutil.rmtree(d, ignore_errors=True)
        return None, "no-output rc=%s" % rc
    uses_phase = False
    for root, _dirs, fs in os.walk(d):
        for f in fs:
            if f.lower().endswith((".asm", ".inc", ".i", ".mac")):
                try:
                    if re.search(r"\bphase\b", open(os.path.join(root, f), encoding="latin-1").read(), re.I):
                        uses_phase = True
                except OSError:
                    pass
    shutil.rmtree(d, ignore_errors=True)
    if rc != 0:
        return None, "rc=%s" % rc
    recs = common.parse_pfile_py(pf)
    if recs is None:
        return None, "pfile"
    grans = {r[3] for r in recs if r[0] == "D"}
    src, sym = strip_listing(lst)
    toks = ["r:16", "n:16", "p:" + pf.hex()]
    toks += ["l:" + hx(l) for l in src]
    toks += ["y:" + hx(l) for l in sym]
    toks += ["m:" + hx(l) for l in mp.split("\n") if l.strip()]
    return " ".join(toks), dict(grans=sorted(grans), src=src, uses_phase=uses_phase)


def run(args):
    res = common.Result("C19", args.tier, args.seed, "proof")
    bdir, audit, proof_problems = common.standard_setup(res, "C19", ["ListParams"])
    if bdir is None:
        return res.finish()
    ok = not any(p.startswith("driver does not build") for p in proof_problems)
    rng = common.rng_for(args.seed, "C19")
    spec_fail = []
    corr_fail = []
    samples = []
    dist = {}
    agg = dict(programs=0, asl_rejected=0, listing_lines=0, code_groups=0, listed_bytes=0, hidden_bytes=0, map_entries=0,
               sym_list=0, sym_map=0, sym_share=0)
    distinct = set()
    with common.Workdir("c19") as wd:
        mode = probe_num_radix(bdir, wd)
        dist["probe_listing_numerals"] = mode
        if mode is None:
            proof_problems.append("probe: cannot tell in which radix the listing numerals are printed")
            mode = "hex"
        nprog = {"quick": 120, "thorough": 1500}[args.tier]
        reqs, metas = run_generated(bdir, wd, rng, nprog, mode, dist)
        answers = common.driver("c19", reqs, timeout=3600) if ok and reqs else []
        for meta, ri in metas:
            agg["programs"] += 1
            if ri is None:
                agg["asl_rejected"] += 1
                spec_fail.append(dict(tag=meta["tag"], why="asl rejected a valid generated program: " + meta.get("error", ""), files=meta["files"], args=meta["args"]))
                continue
            if ri >= len(answers):
                continue
            ans = answers[ri]
            kv = kv_of(ans)
            if kv.get("pfile") != "ok":
                spec_fail.append(dict(tag=meta["tag"], why="driver: " + ans[:200], files=meta["files"], args=meta["args"]))
                continue
            agg["listing_lines"] += int(kv["lines"])
            agg["code_groups"] += int(kv["code_groups"])
            agg["listed_bytes"] += int(kv["listed"])
            agg["hidden_bytes"] += int(kv["hidden"])
            agg["map_entries"] += int(kv["map_entries"])
            agg["sym_list"] += int(kv["nsym_list"])
            agg["sym_map"] += int(kv["nsym_map"])
            agg["sym_share"] += int(kv["nsym_share"])
            distinct.add((meta["cpu"], meta["radix"], meta["share"], kv["code_groups"], kv["listed"], kv["map_entries"]))
            brief = {k: v for k, v in kv.items() if k != "model_line"}
            if len(samples) < 3 and int(kv["code_groups"]) > 5:
                samples.append(dict(tag=meta["tag"], cpu=meta["cpu"], radix=meta["radix"], share=meta["share"], listing=meta["listing_head"], verdict=brief))
            common_f = dict(tag=meta["tag"], cpu=meta["cpu"], radix=meta["radix"], share=meta["share"], files=meta["files"], args=meta["args"], verdict=brief)
            # (C) listing
            if kv["spec_list"] != "ok" or kv["complete"] != "ok":
                if meta["radix"] != 16 and kv["diag16"] == "ok":
                    spec_fail.append(dict(sig="listradix-ignored-for-address-and-code", why="address/code numerals of the listing are hexadecimal although -LISTRADIX %d was given (column widths follow the radix)" % meta["radix"], **common_f))
                else:
                    spec_fail.append(dict(why="listing line does not state address/bytes of the code file: spec_list=%s complete=%s" % (kv["spec_list"], kv["complete"]), **common_f))
            elif kv["corr_list"] != "ok":
                corr_fail.append(dict(why="MakeList model text differs from the real listing: " + kv["corr_list"], model_line=kv.get("model_line"), **common_f))
            if kv["spec_map"] != "ok" or kv["map_all"] != "ok" or kv["map_bad_lines"] != "0":
                spec_fail.append(dict(why="MAP line info: spec_map=%s map_all=%s bad_lines=%s" % (kv["spec_map"], kv["map_all"], kv["map_bad_lines"]), **common_f))
            elif kv["corr_map"] != "ok":
                corr_fail.append(dict(why="AddLineInfo ordering model differs from the real MAP file", **common_f))
            for key, what in (("sym_list", "listing symbol table"), ("sym_map", "MAP symbol section"), ("sym_share", "share file")):
                if kv[key] != "ok":
                    spec_fail.append(dict(why="%s does not give the symbol's final value: %s" % (what, kv[key]), **common_f))
            if kv["sym_map_nothing"] != "ok":
                spec_fail.append(dict(sig="map-symbols-without-segment-omitted", why="MAP file has no 'Symbols in Segment NOTHING' section: " + kv["sym_map_nothing"], **common_f))

        # ---- word-listed / word-addressed targets (vlib/props/c19_wide.py, driver mode c19w)
        from . import c19_wide
        wres = c19_wide.run_wide(bdir, wd, common.rng_for(args.seed, "C19-wide"), {"quick": 48, "thorough": 640}[args.tier], mode, ok)
        spec_fail += wres["spec_fail"]
        corr_fail += wres["corr_fail"]
        dist["wide"] = dict(generated=wres["agg"], **wres["dist"])
        dist["wide"]["table_combinations_cpu_segments"] = c19_wide.table_combos()
        samples += wres["samples"][:2]
        distinct |= wres["distinct"]

        # ---- source positions of MAP / NoICE / listing (vlib/props/c19_lines.py, driver mode c19l)
        from . import c19_lines
        lres = c19_lines.run_lines(bdir, wd, common.rng_for(args.seed, "C19-lines"), {"quick": 200, "thorough": 3000}[args.tier], ok)
        spec_fail += lres["spec_fail"]
        corr_fail += lres["corr_fail"]
        dist["lines"] = dict(generated=lres["agg"], **lres["dist"])
        samples += lres["samples"][:2]
        distinct |= lres["distinct"]

        # ---- symbol table of the listing / share files under -h, character sets, all integer syntaxes (vlib/props/c19_syms.py, driver mode c19s)
        from . import c19_syms
        yres = c19_syms.run_syms(bdir, wd, common.rng_for(args.seed, "C19-syms"), {"quick": 160, "thorough": 2400}[args.tier], ok)
        spec_fail += yres["spec_fail"]
        corr_fail += yres["corr_fail"]
        dist["symbols"] = dict(generated=yres["agg"], **yres["dist"])
        samples += yres["samples"][:2]
        distinct |= yres["distinct"]

        # ---- golden corpus
        tests = common.corpus_tests()
        order = list(range(len(tests)))
        common.rng_for(args.seed, "C19-corpus").shuffle(order)
        pick = order[:40] if args.tier == "quick" else order
        cagg = dict(tests=0, skipped=0, addr_differs_from_load_under_phase=0, retracted_predecessor_skipped=0, groups=0, nocode=0, wide_joined=0, wide_bytes=0, via_map=0, direct=0, bytes=0, multi_line=0, sym_compared=0, map_entries=0, other_lines=0)
        creqs = []
        cmeta = []
        for ti in sorted(pick):
            name, asm, flags = tests[ti]
            rq, info = corpus_request(bdir, wd, name, asm, flags)
            if rq is None:
                cagg["skipped"] += 1
                continue
            creqs.append(rq)
            cmeta.append((name, info))
        canswers = common.driver("c19c", creqs, timeout=3600) if ok and creqs else []
        for (name, info), ans in zip(cmeta, canswers):
            kv = kv_of(ans)
            if kv.get("pfile") != "ok":
                spec_fail.append(dict(tag="corpus:" + name, why="driver: " + ans[:200]))
                continue
            cagg["tests"] += 1
            for k, kk in (("groups", "groups"), ("nocode", "nocode"), ("wide", "wide_joined"), ("wide_bytes", "wide_bytes"), ("via_map", "via_map"), ("direct", "direct"),
                          ("bytes", "bytes"), ("multi", "multi_line"), ("retracted", "retracted_predecessor_skipped"), ("sym_compared", "sym_compared"), ("map_entries", "map_entries"), ("other", "other_lines")):
                cagg[kk] += int(kv[k])
            if kv.get("wdist", "-") != "-":
                wd_ = cagg.setdefault("wide_g:lg:byteorder", {})
                for it in kv["wdist"].split(","):
                    k_, v_ = it.rsplit("=", 1)
                    wd_[k_] = wd_.get(k_, 0) + int(v_)
            if kv["list_bad"] != "ok":
                idxs = [int(x) for x in kv["list_bad"].split(":", 1)[1].split(",")]
                spec_fail.append(dict(tag="corpus:" + name, why="golden test: listing line's address/bytes not found in the code file", lines=[info["src"][i] for i in idxs if i < len(info["src"])], verdict=kv))
            cagg["addr_differs_from_load_under_phase"] += int(kv["addr_ne"])
            if int(kv["addr_ne"]) and not info["uses_phase"]:
                idxs = [int(x) for x in kv["addr_ne_idx"].split(":", 1)[1].split(",")]
                spec_fail.append(dict(tag="corpus:" + name, why="golden test without PHASE: listed address differs from the address at which the code file holds the line's bytes", lines=[info["src"][i] for i in idxs if i < len(info["src"])], verdict=kv))
            if kv["sym_diff"] != "ok":
                spec_fail.append(dict(tag="corpus:" + name, why="golden test: listing symbol table and MAP symbol section disagree: " + kv["sym_diff"], verdict=kv))
        dist["corpus"] = cagg

    res.coverage = common.proof_coverage(audit, "C19", [
        "harness: page-header stripping of the listing, file plumbing (python)",
        "correspondence: real asl listing text vs Model.Listing.makeList / makeListW (Gran, ListGran, TurnWords from Generated/ListParams.lean) fed with the line buffer Model.Listing.writeBytesLine leaves behind (the WriteBytes model run over the whole emission history, record content compared with the code file); MAP order vs addLineInfo (differential test)",
        "translator: Generated/ListParams.lean = globals after every CPU switch, printed by a dumper linked against the current build (ld --wrap of MakeList/asmlist_init)",
        "self-calibrating probe: radix of the listing's %x numerals (affects the MODEL side only)",
        "source positions: the generator (python) renders a nesting tree into source files and INCLUDE arguments (FSearch order re-implemented for choosing unambiguous arguments); correspondence real MAP/NoICE records vs LineInfo.run + addFile + addLineInfo"])
    res.coverage.update(
        evaluations=agg["code_groups"] + agg["map_entries"] + agg["sym_list"] + agg["sym_map"] + agg["sym_share"] + dist["corpus"]["via_map"] + dist["corpus"]["direct"]
        + sum(dist["wide"]["generated"][k] for k in ("code_groups", "map_entries", "sym_list", "sym_map", "sym_share"))
        + sum(dist["lines"]["generated"][k] for k in ("map_entries", "noice_entries", "atmel_records", "listing_groups"))
        + sum(dist["symbols"]["generated"][k] for k in ("sym_list", "sym_share", "sym_included")),
        distinct_nontrivial=len(distinct),
        rule="generated programs on z80/6502/8051/8086 (data lines 1..40 bytes with continuation lines, single statements of 130..1300 bytes - DUP / [n] repeat operands, sizes around MaxCodeLen_Ini = 256 and CodeBufferSize = 512, also under LISTING OFF; every tenth program mostly such statements -, reservations, ORG, SEGMENT, PHASE, macros, REPT, nested INCLUDE, IF, LISTING OFF, EQU, SHARED incl. forward reference) x list radix x share format; evaluation = one listed line group / MAP entry / symbol value joined with the code file; distinct by (cpu, radix, share format, #groups, #bytes, #map entries); the same on word-listed / word-addressed targets (68000 dc.b/dc.w/dc.l with PADDING, TMS320C25, TMS320C30, PIC 16C84, ATmega8, MSP430, TMS9900, CP-1600, 80960: data lines of 1..13 units = up to 5 listing lines, single statements of 130..1300 bytes (68000 dc.b/dc.w/dc.l with [n] repeats, operand lists up to 470 operands and strings, MSP430/TMS9900 BYTE strings, PIC ZERO; a third more programs that consist mostly of such statements, every second one on the 68000; all three ways of WriteBytes - append / flush+buffer / write-through - counted per run; directives that do not enlarge the line buffer are kept at <= 256 bytes except in the programs generated to show the finding data-directive-overruns-code-buffer), byte-dumped remainders, reservations, ORG, SEGMENT, PHASE, macros, REPT, INCLUDE, LISTING OFF); source positions: nesting trees (main file + include files in several directories incl. equal base names and repeated inclusion, INCLUDE inside REPT/IRP/IRPN/IRPC/WHILE/macro bodies and nested, blocks in blocks and in macros, REPT 0 / WHILE 0, code after every block, continuation lines) on z80/6502/8051/8086, evaluation = one MAP / NoICE record or listing line group joined with the code file and the structural position (file, admissible lines), distinct by (cpu, #executed statements, #files, #records, #bytes); symbols: programs of EQU / SET / labels / section-local / float / string symbols on 13 targets of the four integer syntaxes (Intel, Motorola, C, IBM) x character set (ASCII, ISO 8859-1, UTF-8 via LC_CTYPE / LC_ALL / LANG / -codepage) x -h x -U x list radix x page width x share format, names of 2..110 characters with 0..90 % characters beyond ASCII, values with a letter as leading hex digit, negative values; evaluation = one symbol of the listing's symbol table / one share file definition / one symbol of the program that includes the assembler-format share file, compared with the value in the source; distinct by (cpu, character set, share format, -h, radix, #table cells, #shared)",
        samples=samples, distribution=dict(generated=agg, **dist))
    res.assumptions = ["word-listed lines of the golden corpus are joined by the general documented reading with every address-unit size and byte order for which the code file has records (no per-target knowledge)",
                       "generated word-listed programs: address-unit size, byte order, data directives and the even-address padding rule per target are generator knowledge (manufacturer documentation / doc/pseudo-instructions.md)",
                       "statements of more than 256 bytes with a data directive that does not enlarge the line buffer (WORD of MSP430 / TMS9900 / TMS320C2x / C3x / CP-1600 / 80960, DATA of PIC / AVR) are generated only in the two (thorough: 26) programs that show the known finding data-directive-overruns-code-buffer; every failure of such a program is attributed to that finding",
                       "negative symbol values are compared modulo 2^64 (the files print the 64-bit two's complement)",
                       "NoICE and Atmel debug files: the line records of generated programs only (NoICE symbol definitions, Atmel code words are not compared)",
                       "a statement inside a macro expansion or inside a block nested in another block may be attributed to the line of an enclosing statement (macro call, opening line of the block) of the file being read: the manual only says 'the machine code generated for the source statement in a certain line'",
                       "hook H2 (emission trace) is not present; the generator's own bookkeeping supplies segment/phase per listed line"]
    return common.conclude(res, proof_problems, spec_fail, corr_fail, agg["programs"] + dist["wide"]["generated"]["programs"] + dist["lines"]["generated"]["programs"] + dist["symbols"]["generated"]["programs"] + dist["corpus"]["tests"])


def replay(args):
    d = json.load(open(args.replay))
    print(json.dumps({k: (v if len(str(v)) < 3000 else str(v)[:3000] + "...") for k, v in d.items()}, indent=1))
    if "files" in d and "args" in d:
        bdir = common.repo_build("hooks")
        with common.Workdir("c19r") as wd:
            for n, t in d["files"].items():
                os.makedirs(os.path.dirname(os.path.join(wd, n)), exist_ok=True)
                open(os.path.join(wd, n), "w", encoding=d.get("encoding")).write(t)
            env = None
            if "env" in d:
                # character set of the run: exactly the LC_CTYPE / LC_ALL / LANG of the failing case
                env = {k: v for k, v in common.tool_env(bdir).items() if k not in ("LC_CTYPE", "LC_ALL", "LANG")}
                env.update(d["env"])

            def asl(a):
                if env is None:
                    return common.run_tool(bdir, "asl", a, wd)
                from . import c19_syms
                return c19_syms.tool(bdir, "asl", a, wd, env)
            rc, so, se = asl(d["args"])
            print("asl rc =", rc, (so + se).decode(errors="replace")[-500:])
            for k_ in ("args_noice", "args_atmel", "args_include"):
                if k_ in d:
                    rc, so, se = asl(d[k_])
                    print(k_, "rc =", rc, (so + se).decode(errors="replace")[-500:])
            for root, _dirs, fs in sorted(os.walk(wd)):
                for f in sorted(fs):
                    if f.endswith((".lst", ".map", ".shr", ".noi")):
                        print("----", os.path.relpath(os.path.join(root, f), wd))
                        print(open(os.path.join(root, f), encoding="latin-1").read()[:6000])
    return 0
