"""Shared machinery of the asl-releases verification checks.

Everything here is derived from __file__ so that a snapshot of /verif works too.
"""
import fcntl
import hashlib
import json
import os
import random
import re
import shutil
import subprocess
import sys
import time

VERIF = os.path.dirname(os.path.dirname(os.path.abspath(__file__)))
REPO = os.environ.get("VERIF_REPO", "/repo")
LEAN_DIR = os.environ.get("VERIF_LEAN") or os.path.join(VERIF, "lean")   # VERIF_LEAN: private copy for runs on changed trees (scripts/seeded.py)
SCRATCH_ROOT = os.environ.get("VERIF_SCRATCH", "/var/tmp/asl-verif-main")
OUT_DIR = os.environ.get("VERIF_OUT") or VERIF     # evidence/ and replays/ go here (runs on changed trees write elsewhere)
GUARD = "ASL_VERIF"
ALLOWED_AXIOMS = {"propext", "Classical.choice", "Quot.sound"}
FORBIDDEN_RE = re.compile(
    r"\bsorry\b|\badmit\b|^axiom\s|\bnative_decide\b|\bimplemented_by\b|\bunsafe\s|maxHeartbeats\s+0\b|\bbv_decide\b"
)


def log(*a):
    print(*a, file=sys.stderr, flush=True)


def sh(cmd, cwd=None, env=None, timeout=None, input=None, check=False):
    e = dict(os.environ)
    if env:
        e.update(env)
    return subprocess.run(cmd, cwd=cwd, env=e, timeout=timeout, input=input,
                          stdout=subprocess.PIPE, stderr=subprocess.PIPE, check=check)


class Lock:
    def __init__(self, name):
        os.makedirs(SCRATCH_ROOT, exist_ok=True)
        self.path = os.path.join(SCRATCH_ROOT, name + ".lock")

    def __enter__(self):
        self.f = open(self.path, "w")
        fcntl.flock(self.f, fcntl.LOCK_EX)
        return self

    def __exit__(self, *a):
        fcntl.flock(self.f, fcntl.LOCK_UN)
        self.f.close()


# --------------------------------------------------------------------------
# rebuilding /repo's current working tree

_SRC_EXT = (".c", ".h", ".hpp", ".res", ".txt", ".cmake", ".in", ".inl")


def repo_tree_hash():
    """Content hash of every build-relevant file of /repo's working tree."""
    h = hashlib.sha256()
    names = []
    for root, dirs, files in os.walk(REPO):
        rel = os.path.relpath(root, REPO)
        top = rel.split(os.sep)[0]
        if top in ("_build", ".git", "tests", "doc", "man", "legacy-build") or top.startswith("_"):
            dirs[:] = []
            continue
        for f in files:
            if f.endswith(_SRC_EXT):
                names.append(os.path.join(root, f))
    for n in sorted(names):
        h.update(n.encode())
        with open(n, "rb") as fh:
            h.update(hashlib.sha256(fh.read()).digest())
    return h.hexdigest()[:16]


class BuildError(Exception):
    pass


def _prune_builds(keep=6):
    try:
        ds = [os.path.join(SCRATCH_ROOT, d) for d in os.listdir(SCRATCH_ROOT) if d.startswith("b-")]
    except FileNotFoundError:
        return
    ds.sort(key=lambda d: os.path.getmtime(d), reverse=True)
    now = time.time()
    for d in ds[keep:]:
        # never remove a build another running check may still be using
        if now - os.path.getmtime(d) > 3 * 3600:
            shutil.rmtree(d, ignore_errors=True)


def repo_build(flavor="hooks", targets=None):
    """Configure and build /repo's *current working tree* out of tree.

    flavor: 'hooks' (-DASL_VERIF), 'plain' (guard off), 'asan' (clang-14 + sanitizers, hooks on).
    The build directory is keyed by a content hash of the sources, so an unchanged tree is built
    once and an edited tree is always rebuilt.  Returns the build directory.
    """
    hh = repo_tree_hash()
    bdir = os.path.join(SCRATCH_ROOT, "b-%s-%s" % (hh, flavor))
    stamp = os.path.join(bdir, ".verif_ok")
    with Lock("build-" + flavor):
        if os.path.exists(stamp):
            os.utime(bdir)
            return bdir
        shutil.rmtree(bdir, ignore_errors=True)
        os.makedirs(bdir)
        cflags = "-w"
        cfg = ["cmake", "-G", "Ninja", "-S", REPO, "-B", bdir, "-DFORCE_COLORED_OUTPUT=FALSE"]
        if flavor == "hooks":
            cflags += " -D" + GUARD
            cfg += ["-DCMAKE_BUILD_TYPE=Release"]
        elif flavor == "plain":
            cfg += ["-DCMAKE_BUILD_TYPE=Release"]
        elif flavor == "asan":
            san = "-fsanitize=address,integer-divide-by-zero,bounds,vla-bound,unreachable,return -fno-sanitize-recover=all -fno-omit-frame-pointer -O1 -g"
            cflags += " -D" + GUARD + " " + san
            cfg += ["-DCMAKE_BUILD_TYPE=RelWithDebInfo", "-DCMAKE_C_COMPILER=clang-14",
                    "-DCMAKE_EXE_LINKER_FLAGS=-fsanitize=address,integer-divide-by-zero,bounds"]
        else:
            raise ValueError(flavor)
        cfg += ["-DCMAKE_C_FLAGS=" + cflags]
        r = sh(cfg, env={"ASAN_OPTIONS": "detect_leaks=0"})
        if r.returncode != 0:
            raise BuildError("cmake configure failed:\n" + r.stdout.decode(errors="replace")[-3000:] + r.stderr.decode(errors="replace")[-3000:])
        cmd = ["cmake", "--build", bdir, "-j", str(os.cpu_count() or 8)]
        if targets:
            cmd += ["--target"] + list(targets)
        r = sh(cmd, env={"ASAN_OPTIONS": "detect_leaks=0"})
        if r.returncode != 0:
            raise BuildError("build failed:\n" + r.stdout.decode(errors="replace")[-6000:] + r.stderr.decode(errors="replace")[-3000:])
        open(stamp, "w").write(hh)
        _prune_builds()
    return bdir


def tool_env(bdir, extra=None):
    e = {"AS_MSGPATH": bdir, "LC_ALL": "C", "LANG": "C", "ASAN_OPTIONS": "detect_leaks=0:abort_on_error=1",
         "ASCMD": "", "P2BINCMD": "", "P2HEXCMD": "", "PBINDCMD": "", "PLISTCMD": "", "DASCMD": ""}
    if extra:
        e.update(extra)
    return e


class Workdir:
    """Private scratch directory, removed on exit."""

    def __init__(self, tag):
        self.path = os.path.join(SCRATCH_ROOT, "w-%s-%d-%d" % (tag, os.getpid(), int(time.time() * 1000) % 100000))

    def __enter__(self):
        os.makedirs(self.path, exist_ok=True)
        return self.path

    def __exit__(self, *a):
        shutil.rmtree(self.path, ignore_errors=True)


def run_tool(bdir, tool, args, cwd, timeout=60, env=None, stdin=None):
    """Run a real binary; returns (status, stdout, stderr) with status = exit code,
    -signal when killed by a signal, or 'timeout'."""
    try:
        r = sh([os.path.join(bdir, tool)] + list(args), cwd=cwd, env=tool_env(bdir, env), timeout=timeout, input=stdin)
        return r.returncode, r.stdout, r.stderr
    except subprocess.TimeoutExpired as ex:
        return "timeout", ex.stdout or b"", ex.stderr or b""


# --------------------------------------------------------------------------
# Lean side

def lean_build(targets):
    """lake build of the given module / exe targets. Returns (ok, output)."""
    with Lock("lake-" + hashlib.sha1(LEAN_DIR.encode()).hexdigest()[:8]):
        r = sh(["lake", "build"] + list(targets), cwd=LEAN_DIR, timeout=3600)
    out = (r.stdout + r.stderr).decode(errors="replace")
    return r.returncode == 0, out


def driver_path():
    return os.path.join(LEAN_DIR, ".lake", "build", "bin", "asldrv")


def driver(mode, lines, timeout=600):
    """Pipe request lines to the compiled Lean driver; returns list of answer lines."""
    data = ("\n".join(lines) + "\n").encode()
    r = sh([driver_path(), mode], input=data, timeout=timeout)
    if r.returncode != 0:
        raise RuntimeError("asldrv %s failed: %s" % (mode, r.stderr.decode(errors="replace")[-2000:]))
    out = r.stdout.decode(errors="replace").split("\n")
    if out and out[-1] == "":
        out.pop()
    return out


def strip_lean_comments(text):
    # remove block comments (nested) and line comments
    out = []
    i = 0
    depth = 0
    n = len(text)
    while i < n:
        if text.startswith("/-", i):
            depth += 1
            i += 2
        elif depth and text.startswith("-/", i):
            depth -= 1
            i += 2
        elif depth:
            if text[i] == "\n":
                out.append("\n")
            i += 1
        elif text.startswith("--", i):
            while i < n and text[i] != "\n":
                i += 1
        else:
            out.append(text[i])
            i += 1
    return "".join(out)


def theorem_names(path):
    """Names (with namespaces) of the theorems declared in a Props file."""
    src = strip_lean_comments(open(path).read())
    ns = []
    names = []
    for line in src.split("\n"):
        m = re.match(r"\s*namespace\s+(\S+)", line)
        if m:
            ns.append(m.group(1))
            continue
        m = re.match(r"\s*end\s+(\S+)", line)
        if m and ns and ns[-1] == m.group(1):
            ns.pop()
            continue
        m = re.match(r"\s*(?:@\[[^\]]*\]\s*)?(?:protected\s+|private\s+)?theorem\s+(\S+)", line)
        if m:
            names.append(".".join(ns + [m.group(1)]))
    return names


def lean_sources_of(modules):
    """All AslModel source files transitively imported by the given modules."""
    seen = {}
    todo = list(modules)
    while todo:
        m = todo.pop()
        if m in seen or not m.startswith("AslModel"):
            continue
        p = os.path.join(LEAN_DIR, *m.split(".")) + ".lean"
        if not os.path.exists(p):
            continue
        seen[m] = p
        for line in open(p):
            mm = re.match(r"\s*(?:public\s+)?import\s+(\S+)", line)
            if mm:
                todo.append(mm.group(1))
    return seen


def lean_audit(prop, extra_modules=()):
    """Build Props/<prop>, print axioms of each of its theorems, grep for forbidden tokens.

    Returns dict(ok, obligations, discharged, theorems, axioms, problems, log)."""
    mod = "AslModel.Props." + prop
    pdir = os.path.join(LEAN_DIR, "AslModel", "Props")
    props_file = os.path.join(pdir, prop + ".lean")
    res = dict(ok=False, obligations=0, discharged=0, theorems=[], axioms={}, problems=[], log="")
    if not os.path.exists(props_file):
        res["problems"].append("missing " + props_file)
        return res
    # a property's theorems may be spread over Props/Cxx.lean and Props/Cxx_<part>.lean (one file per modelled part)
    parts = sorted(f[:-5] for f in os.listdir(pdir) if f.startswith(prop + "_") and f.endswith(".lean"))
    mods = [mod] + ["AslModel.Props." + x for x in parts]
    names = []
    for x in [prop] + parts:
        names += theorem_names(os.path.join(pdir, x + ".lean"))
    res["theorems"] = names
    res["modules"] = mods
    res["obligations"] = len(names)
    ok, out = lean_build(mods + list(extra_modules))
    res["log"] = out[-6000:]
    if not ok:
        res["problems"].append("lake build %s failed" % mod)
        # find which theorems fail: report error lines
        errs = [l for l in out.split("\n") if "error" in l]
        res["problems"] += errs[:20]
        return res
    # forbidden tokens
    for m, p in lean_sources_of(mods).items():
        body = strip_lean_comments(open(p).read())
        for i, line in enumerate(body.split("\n")):
            if FORBIDDEN_RE.search(line):
                res["problems"].append("forbidden token in %s:%d: %s" % (m, i + 1, line.strip()[:80]))
    # axioms
    os.makedirs(os.path.join(LEAN_DIR, "Audit"), exist_ok=True)
    af = os.path.join(LEAN_DIR, "Audit", prop + ".lean")
    with open(af, "w") as f:
        for m_ in mods:
            f.write("import %s\n" % m_)
        for n in names:
            f.write("#print axioms %s\n" % n)
    r = sh(["lake", "env", "lean", af], cwd=LEAN_DIR, timeout=1200)
    out2 = (r.stdout + r.stderr).decode(errors="replace")
    res["log"] += out2[-3000:]
    if r.returncode != 0:
        res["problems"].append("axiom audit failed to run: " + out2[-500:])
        return res
    out2 = re.sub(r"\s*\n\s+", " ", out2)
    found = {}
    for line in out2.split("\n"):
        m = re.match(r"'([^']+)' depends on axioms: \[(.*)\]", line)
        if m:
            found[m.group(1)] = [a.strip() for a in m.group(2).split(",") if a.strip()]
        m = re.match(r"'([^']+)' does not depend on any axioms", line)
        if m:
            found[m.group(1)] = []
    disc = 0
    for n in names:
        if n not in found:
            res["problems"].append("no axiom report for " + n)
            continue
        bad = [a for a in found[n] if a not in ALLOWED_AXIOMS]
        if bad:
            res["problems"].append("theorem %s depends on non-whitelisted axioms %s" % (n, bad))
        else:
            disc += 1
    res["axioms"] = found
    res["discharged"] = disc
    res["ok"] = not res["problems"] and disc == len(names) and len(names) > 0
    return res


# --------------------------------------------------------------------------
# evidence / verdicts

def load_known_findings(prop):
    p = os.path.join(VERIF, "known_findings.json")
    if not os.path.exists(p):
        return [], []
    d = json.load(open(p))
    kf = [e for e in d.get("known", []) if e["property"] == prop]
    fx = [e for e in d.get("fixed", []) if e["property"] == prop]
    return kf, fx


class Result:
    """Collects what a check did; prints VIOLATION / KNOWN-FINDING lines; writes evidence."""

    def __init__(self, prop, tier, seed, level="proof"):
        self.prop = prop
        self.tier = tier
        self.seed = seed
        self.level = level
        self.t0 = time.time()
        self.violations = []     # (replay path, suffix)
        self.known_hits = []
        self.coverage = {}
        self.assumptions = []
        self.notes = []
        d = os.path.join(OUT_DIR, "replays", self.prop)
        if os.path.isdir(d):
            for f in os.listdir(d):
                try:
                    os.unlink(os.path.join(d, f))
                except OSError:
                    pass

    def replay_path(self, name):
        d = os.path.join(OUT_DIR, "replays", self.prop)
        os.makedirs(d, exist_ok=True)
        return os.path.join(d, name)

    def violation(self, name, payload, no_input=False):
        p = self.replay_path(name)
        with open(p, "w") as f:
            json.dump(payload, f, indent=1, default=str)
        self.violations.append((p, no_input))
        return p

    def known(self, what):
        self.known_hits.append(what)

    def finish(self):
        cov = dict(self.coverage)
        ev = dict(property_id=self.prop, tier=self.tier, seed=self.seed, level=self.level, coverage=cov,
                  assumptions=self.assumptions, wall_s=round(time.time() - self.t0, 2), violations=len(self.violations))
        if self.known_hits:
            cov["known_findings_reproduced"] = self.known_hits
        if self.notes:
            cov["notes"] = self.notes
        os.makedirs(os.path.join(OUT_DIR, "evidence"), exist_ok=True)
        with open(os.path.join(OUT_DIR, "evidence", self.prop + ".json"), "w") as f:
            json.dump(ev, f, indent=1, default=str)
        for k in self.known_hits:
            print("KNOWN-FINDING: property=%s %s" % (self.prop, k))
        for p, no_input in self.violations:
            print("VIOLATION property=%s replay=%s%s" % (self.prop, p, " no-failing-input-found" if no_input else ""))
        sys.stdout.flush()
        return 1 if self.violations else 0


def standard_setup(res, prop, generated, driver=True):
    """Rebuild /repo (hooks on), regenerate tables, build driver, audit proofs.

    Returns (bdir or None, audit dict, proof_problems list).  On a repo build failure a
    VIOLATION (no-failing-input-found) is recorded and bdir is None."""
    from translate import tables
    proof_problems = []
    try:
        bdir = repo_build("hooks")
    except BuildError as ex:
        res.violation("build.json", dict(kind="build-failure", detail=str(ex)), no_input=True)
        res.coverage = dict(obligations=1, discharged=0, checker_cmd="cmake --build", trusted_base=[],
                            explanation="/repo's working tree does not build")
        return None, dict(ok=False, obligations=1, discharged=0, theorems=[], axioms={}, problems=["build"]), ["build"]
    try:
        tables.regenerate(bdir, generated)
    except tables.ExtractError as ex:
        proof_problems.append("translator: " + str(ex))
    if driver:
        ok, out = lean_build(["asldrv"])
        if not ok:
            proof_problems.append("driver does not build: " + out[-1500:])
    audit = lean_audit(prop)
    if not audit["ok"]:
        proof_problems += audit["problems"]
    elif res.tier == "thorough":
        # independent re-check of the compiled property modules (one module per call)
        bad = lean_recheck(audit.get("modules", []))
        audit["leanchecker"] = "ok" if not bad else bad
        proof_problems += bad
    return bdir, audit, proof_problems


def lean_recheck(modules):
    """`lake env leanchecker <module>` for each module; returns the list of problems"""
    problems = []
    for m in modules:
        try:
            r = sh(["lake", "env", "leanchecker", m], cwd=LEAN_DIR, timeout=1800)
        except subprocess.TimeoutExpired:
            problems.append("leanchecker %s: timeout" % m)
            continue
        if r.returncode != 0:
            problems.append("leanchecker rejects %s: %s" % (m, (r.stdout + r.stderr).decode(errors="replace")[-400:]))
    return problems


def proof_coverage(audit, prop, extra_trusted=()):
    return dict(
        obligations=max(1, audit["obligations"]), discharged=audit["discharged"],
        checker_cmd="lake build AslModel.Props.%s && lake env lean Audit/%s.lean (#print axioms of every theorem)" % (prop, prop),
        trusted_base=["Lean 4.33 kernel" + (" + leanchecker re-check of the property modules: %s" % audit["leanchecker"] if "leanchecker" in audit else ""), "axioms used: " + ",".join(sorted({a for v in audit["axioms"].values() for a in v}) or ["none"])] + list(extra_trusted),
        theorems=audit["theorems"])


def conclude(res, proof_problems, spec_fail, corr_fail, searched):
    """Verdict logic of DESIGN.md 2.6.

    spec_fail: list of dicts – the property fails on the *real implementation* for a concrete input
               (each may carry 'sig': a signature string compared with known_findings.json).
    corr_fail: list of dicts – model and implementation disagree but the spec held on that input.
    proof_problems: list of strings – theorem/translator/audit failures.
    """
    known, _fixed = load_known_findings(res.prop)
    known_sigs = {k["sig"]: k for k in known}
    new_spec = []
    seen_known = {}
    for f in spec_fail:
        s = f.get("sig")
        if s is not None and s in known_sigs:
            seen_known.setdefault(s, f)
        else:
            new_spec.append(f)
    for s, f in seen_known.items():
        res.known("%s (%s)" % (known_sigs[s]["what"], s))
    for i, f in enumerate(new_spec[:5]):
        res.violation("spec_%d.json" % i, _with_kind("property-violated-on-implementation", f))
    if not new_spec:
        for i, c in enumerate(corr_fail[:3]):
            res.violation("corr_%d.json" % i, _with_kind("correspondence-broken", c), no_input=True)
        if proof_problems:
            res.violation("proof.json", dict(kind="proof-or-translator-broken", problems=proof_problems,
                                             searched_inputs=searched), no_input=True)
    res.coverage["spec_failures"] = len(spec_fail)
    res.coverage["spec_failures_matching_known_findings"] = len(spec_fail) - len(new_spec)
    res.coverage["disagreements_checked"] = len(corr_fail)
    return res.finish()


def _with_kind(kind, f):
    """replay record of a failure; a harness may use the key `kind` for its own purposes (kind of case): it is kept as `case_kind`
    - a key clash must never turn a violation into a crash of the check"""
    d = dict(f)
    if "kind" in d:
        d["case_kind"] = d.pop("kind")
    d["kind"] = kind
    return d


def rng_for(seed, tag):
    return random.Random("%s/%s" % (seed, tag))


def hexs(b):
    return bytes(b).hex()


# --------------------------------------------------------------------------
# golden corpus (tests/t_*) helpers, shared by C01/C16/C17/C18/C19

def corpus_tests():
    """[(name, asm path, [asflags...])] of the repository's golden tests"""
    import shlex
    out = []
    tdir = os.path.join(REPO, "tests")
    for n in sorted(os.listdir(tdir)):
        d = os.path.join(tdir, n)
        asm = os.path.join(d, n + ".asm")
        if not os.path.isfile(asm):
            continue
        flags = []
        ff = os.path.join(d, "asflags")
        if os.path.exists(ff):
            flags = shlex.split(open(ff).read().strip())
        out.append((n, asm, flags))
    return out


def assemble_test(bdir, wd, name, asm, flags, extra_flags=(), env=None, out_base=None, timeout=120):
    """run asl the way test_driver.c does; returns (status, stdout, stderr, path of .p)"""
    base = out_base or os.path.join(wd, name)
    args = list(flags) + ["-q", "-i", os.path.join(REPO, "include")] + list(extra_flags) + [asm, "-o", base + ".p", "-shareout", base + ".h"]
    rc, so, se = run_tool(bdir, "asl", args, wd, timeout=timeout, env=env)
    return rc, so, se, base + ".p"


def parse_pfile_py(data):
    """Harness-side reader of a code file (used for plumbing only; the oracle reader is the Lean one).
    returns list of ('D', cpu, seg, gran, start, bytes) / ('E', addr) or None"""
    if len(data) < 2 or data[0] != 0x89 or data[1] != 0x14:
        return None
    i = 2
    items = []
    gran_tab = None
    while i < len(data):
        h = data[i]
        i += 1
        if h == 0:
            return items
        if h == 0x80:
            items.append(("E", int.from_bytes(data[i:i + 4], "little")))
            i += 4
        elif h == 0x81:
            cpu, seg, gran = data[i], data[i + 1], data[i + 2]
            start = int.from_bytes(data[i + 3:i + 7], "little")
            ln = int.from_bytes(data[i + 7:i + 9], "little")
            items.append(("D", cpu, seg, gran, start, data[i + 9:i + 9 + ln]))
            i += 9 + ln
        else:
            return None
    return None
