#!/bin/sh
# Build the framework from files on disk only (offline): Lean library + compiled driver,
# then a hooks-on build of /repo's current tree (cached by content hash under $VERIF_SCRATCH).
set -e
cd "$(dirname "$0")/.."
python3 - <<'PY'
import sys
sys.path.insert(0, '.')
from vlib import common
from translate import tables
b = common.repo_build('hooks')
tables.regenerate(b, list(tables.GENERATORS))
PY
(cd lean && lake build AslModel asldrv)
echo setup-ok
