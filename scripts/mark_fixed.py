#!/usr/bin/env python3
"""mark_fixed.py <property> <sig> <fragment of the fix commit subject>: move a known finding to 'fixed' with the commit hash"""
import json, subprocess, sys, os
HERE = os.path.dirname(os.path.dirname(os.path.abspath(__file__)))
prop, sig, frag = sys.argv[1:4]
log = subprocess.run(['git', '-C', '/repo', 'log', '--format=%h %s'], stdout=subprocess.PIPE).stdout.decode().split('\n')
hit = [l for l in log if frag in l and l.split(' ', 1)[1].startswith('fix:')]
assert len(hit) == 1, hit
h = hit[0].split()[0]
p = os.path.join(HERE, 'known_findings.json')
d = json.load(open(p))
ent = [e for e in d['known'] if e['property'] == prop and e['sig'] == sig]
assert len(ent) == 1, (prop, sig, len(ent))
e = dict(ent[0]); e['commit'] = h; e['line'] = 'fixed: property=%s %s %s' % (prop, h, sig)
d['known'] = [x for x in d['known'] if not (x['property'] == prop and x['sig'] == sig)]
d['fixed'].append(e)
json.dump(d, open(p, 'w'), indent=1)
print(e['line'])
