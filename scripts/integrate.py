#!/usr/bin/env python3
"""integrate.py <agent verif dir> <base dir>: bring a worker's copy into /verif.

New files are copied; shared files are merged 3-way (git merge-file) except the small registries
(AslModel.lean, Driver/Main.lean, known_findings.json, mkmanifest CLAIMS) which are merged by adding
the worker's new entries."""
import json
import os
import re
import shutil
import subprocess
import sys

HERE = os.path.dirname(os.path.dirname(os.path.abspath(__file__)))
SKIP_DIRS = {".lake", "__pycache__", "replays", "evidence", "Audit", "seeded", ".git"}
SKIP_FILES = {"MANIFEST.json"}


def walk(root):
    out = []
    for d, dirs, files in os.walk(root):
        dirs[:] = [x for x in dirs if x not in SKIP_DIRS]
        for f in files:
            if f.endswith((".pyc", ".tmp")):
                continue
            out.append(os.path.relpath(os.path.join(d, f), root))
    return out


def main(agent, base):
    for rel in sorted(walk(agent)):
        if rel in SKIP_FILES:
            continue
        a = os.path.join(agent, rel)
        b = os.path.join(base, rel)
        m = os.path.join(HERE, rel)
        if not os.path.exists(b):
            if os.path.exists(m) and open(m, "rb").read() != open(a, "rb").read():
                print("CONFLICT(new in both):", rel)
                shutil.copy(a, m + ".agent")
            else:
                os.makedirs(os.path.dirname(m), exist_ok=True)
                shutil.copy(a, m)
                print("new     ", rel)
            continue
        if open(a, "rb").read() == open(b, "rb").read():
            continue
        if rel == "lean/AslModel.lean":
            cur = open(m).read().split("\n")
            for line in open(a).read().split("\n"):
                if line.strip() and line not in cur:
                    cur.append(line)
            open(m, "w").write("\n".join([x for x in cur if x.strip()]) + "\n")
            print("merged  ", rel)
        elif rel == "lean/Driver/Main.lean":
            cur = open(m).read()
            at = open(a).read()
            for imp in re.findall(r"^import Driver\.\w+$", at, re.M):
                if imp not in cur:
                    cur = cur.replace("import Driver.C04\n", "import Driver.C04\n" + imp + "\n")
            for mode in re.findall(r'\("[\w-]+", [\w.]+\)', at):
                key = mode.strip().rstrip(",")
                if key not in cur:
                    cur = cur.replace('def modes : List (String × (String → String)) := [\n', 'def modes : List (String × (String → String)) := [\n  ' + key + ',\n')
            open(m, "w").write(cur)
            print("merged  ", rel)
        elif rel == "known_findings.json":
            cur = json.load(open(m))
            ag = json.load(open(a))
            for k in ("known", "fixed"):
                for e in ag.get(k, []):
                    if not any(x.get("property") == e.get("property") and x.get("sig") == e.get("sig") for x in cur["known"] + cur["fixed"]):
                        cur[k].append(e)
            json.dump(cur, open(m, "w"), indent=1)
            print("merged  ", rel)
        elif rel == "scripts/mkmanifest.py":
            at = open(a).read()
            bt = open(b).read()
            # the worker's CLAIMS entries: dump via exec
            ns = {"__file__": a}
            exec(at.split("def main")[0], ns)
            nb = {"__file__": b}
            exec(bt.split("def main")[0], nb)
            cur = open(m).read()
            for k, v in ns["CLAIMS"].items():
                if k not in nb["CLAIMS"] and ('CLAIMS["%s"]' % k) not in cur:
                    v = dict(v)
                    note = v["note"]
                    tb = ns["TB"]
                    body = "CLAIMS[%r] = dict(\n" % k
                    for kk, vv in v.items():
                        if kk == "note" and vv.startswith(tb):
                            body += "    note=TB + %r,\n" % vv[len(tb):]
                        else:
                            body += "    %s=%r,\n" % (kk, vv)
                    body += ")\n\n"
                    cur = cur.replace("NOT_YET = ", body + "NOT_YET = ", 1)
            open(m, "w").write(cur)
            print("merged  ", rel)
        else:
            r = subprocess.run(["git", "merge-file", m, b, a])
            print("3-way   ", rel, "CONFLICTS=%d" % r.returncode if r.returncode else "ok")


if __name__ == "__main__":
    main(sys.argv[1], sys.argv[2])
