#!/bin/sh
# seedrepo.sh <seeded-id> : make a scratch copy of /repo's tree with seeded/<id>/patch.diff applied; prints its path (use as VERIF_REPO)
set -e
d=${VERIF_SCRATCH:-/var/tmp/asl-verif-main}/seedrepo-$1-manual
rm -rf "$d"; mkdir -p "$d"
rsync -a --exclude _build --exclude .git /repo/ "$d/"
patch -p1 -s -d "$d" -i "$(cd "$(dirname "$0")/.." && pwd)/seeded/$1/patch.diff"
echo "$d"
