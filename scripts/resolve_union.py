#!/usr/bin/env python3
"""resolve_union.py <file>...: resolve git merge-file conflict blocks by keeping both sides (ours, then theirs); prints each block"""
import sys
for p in sys.argv[1:]:
    L = open(p).read().split("\n")
    out, i = [], 0
    while i < len(L):
        if L[i].startswith("<<<<<<< "):
            a = i
            b = next(j for j in range(a, len(L)) if L[j] == "=======")
            c = next(j for j in range(b, len(L)) if L[j].startswith(">>>>>>> "))
            ours, theirs = L[a + 1:b], L[b + 1:c]
            print("%s: block at %d: ours %d lines, theirs %d lines" % (p, a + 1, len(ours), len(theirs)))
            for l in (ours[:3] + ["..."] + theirs[:3]) if len(ours) + len(theirs) > 12 else ours + ["--"] + theirs:
                print("   |", l[:150])
            out += ours + theirs
            i = c + 1
        else:
            out.append(L[i])
            i += 1
    open(p, "w").write("\n".join(out))
