#!/usr/bin/env python3
"""kf_clean.py: after merging worker copies (union merge) drop from `known` what is `fixed` or `retracted` (false alarms of the
machinery, see DESIGN 10.4); duplicates by (property, sig) are reduced to the first."""
import json, os
HERE = os.path.dirname(os.path.dirname(os.path.abspath(__file__)))
p = os.path.join(HERE, "known_findings.json")
d = json.load(open(p))
d.setdefault("retracted", [])
gone = set((e["property"], e["sig"]) for e in d["fixed"]) | set((e["property"], e["sig"]) for e in d["retracted"])
seen, out = set(), []
for e in d["known"]:
    k = (e["property"], e["sig"])
    if k in gone or k in seen:
        print("dropped from known:", k)
        continue
    seen.add(k); out.append(e)
d["known"] = out
seen, out = set(), []
for e in d["fixed"]:
    k = (e["property"], e["sig"])
    if k in seen:
        continue
    seen.add(k); out.append(e)
d["fixed"] = out
json.dump(d, open(p, "w"), indent=1)
print(len(d["known"]), "known,", len(d["fixed"]), "fixed,", len(d["retracted"]), "retracted")
