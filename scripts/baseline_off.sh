#!/bin/sh
# The repository's own test suite with the ASL_VERIF guard OFF, from the current working tree.
set -e
D=${VERIF_SCRATCH:-/var/tmp/asl-verif-main}/baseline-off-$$
rm -rf "$D"; mkdir -p "$D"
trap 'rm -rf "$D"' EXIT
cmake -G Ninja -S /repo -B "$D" -DCMAKE_BUILD_TYPE=Release >/dev/null
cmake --build "$D" -j16 >/dev/null
ctest --test-dir "$D" -j8 --timeout 900 --output-junit "$D/junit.xml" | tail -5
