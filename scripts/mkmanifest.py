#!/usr/bin/env python3
"""Writes MANIFEST.json from the table below (one entry per claimed property)."""
import json
import os
import subprocess

HERE = os.path.dirname(os.path.dirname(os.path.abspath(__file__)))
ALL = ["C%02d" % i for i in range(1, 21)]

TB = ("Trusted: Lean 4.33 kernel (+ leanchecker in thorough), axioms propext/Quot.sound/Classical.choice only (audited by #print axioms every run; "
      "no native_decide, no bv_decide, no sorry), translate/tables.py (compiled dumpers / clang AST over the current sources), and the "
      "correspondence check, which is differential testing of the real binaries against the compiled Lean model on generated inputs. ")

CLAIMS = {
    "C04": dict(
        technique="Lean 4 proof (induction over statement lists: record machine preserves cells; reader/writer round trip) + model/impl correspondence on real .p files",
        text="Theorems C04_cells, C04_records_consistent, C04_roundtrip, C04_file_wellformed hold for every statement list (no bound on lengths/interleavings); "
             "the byte-level L1 model of asmcode.c is compared byte-for-byte with real code files and the Lean reader written from doc/file-formats.md is run on every real file.",
        note=TB + "Modelled, not verified: asmcode.c NewRecord/WriteBytes/FlushBuffer/CloseFile as Model/CodeFile.lean; the L1(byte)->L2(record) step is checked by the driver on every case, not yet a theorem. "
             "Relocation records ($82-$85) are outside the model.",
        ref="4.4"),
}

CLAIMS["C02"] = dict(
    technique="Lean 4 proof (invariant: counters = printed counts mod 2^w; induction over diagnostic sequences and file lists) + model/impl correspondence on exit status, code files, counted diagnostics",
    text="Theorems C02_status_iff, C02_codefile_iff, C02_summary_counts, C02_fatal_status, C02_status_range, C02_warnings_harmless hold for all diagnostic sequences, file lists and option records; "
         "the counter width is regenerated from asmerr.c and the hypothesis 'messages per file < 2^width' is explicit (C02_bound_is_necessary proves it cannot be dropped). "
         "Real asl runs (incl. 65535/65536/65537 diagnostics) are compared with the model and checked directly against the statement.",
    note=TB + "Modelled, not verified: WrErrorString/WrXErrorPos classification and counting, -Werror, -w, -maxerrors, AssembleFile tail, main's exit code (Model/ErrCount.lean). "
         "Outside the model: I/O failures (ChkIO, exit 4 start-up errors), EXPECT filtering (C20), multi-pass repetition of warnings (totals are read per final pass).",
    ref="4.2")

CLAIMS["C01"] = dict(
    technique="Lean 4 proof (invariant 'recorded references agree with the table while no repass is requested'; lockstep simulation for the extra pass) + correspondence on pass counts/encoded references + independent resolution oracle on 5 targets + pass-cap search for non-termination",
    text="Theorems C01_refs_final, C01_extra_pass, C01_fixpoint_at_exit hold for every program of the abstract multipass model (any labels/references/value-dependent sizes/padding) and every starting table: whenever the pass loop exits, every reference holds the final value and a further pass reproduces code and symbols. "
         "Termination is NOT a theorem (sizes may oscillate): it is decided by search under a pass cap (hook H1); C01_finding_padding_livelock proves the pre-fix non-termination. "
         "Real asl: pass counts and encoded references are compared with the model (6502 direct/absolute, 68000 padding), a marker/mini-decoder oracle checks that every reference encodes the address of its label on 6502/6809/68HC11/68000/8086, and generated + golden-corpus sources are re-assembled with one forced extra pass and compared byte-for-byte.",
    note=TB + "Modelled, not verified: LookupSymbol (unknown => PC, Repass), SymbolAdder value comparison, LabelModify after InsertPadding, the pass loop (Model/Pass.lean). "
         "Outside the model: EQU expressions, JmpErrors/-Y, the instruction encoders (sizes are abstract functions; the oracle's mini decoders cover lda/ldaa/jmp/bra/data words only). Partial: termination clause by search only.",
    ref="4.1")

CLAIMS['C09'] = dict(
    technique='Lean 4 proof (omega over div/mod transcriptions of the byte helpers and of Double_2_ieee2; induction for DUP replication and the byte decoder; decide over the regenerated IntTypeDefs table) + model/impl correspondence on real code files + spec-on-implementation',
    text="Proved for every value the 64-bit evaluator can deliver: a DC.B/W/L/Q (68000 word-listed and 6809/68HC12 byte-listed), DB/DW/DD/DQ (little and big endian) or BYT/FCB/ADR/FDB statement with one integer argument is accepted iff -2^(w-1) <= v < 2^w (RangeCheck over the IntTypeDefs table regenerated from asmpars.c each run) and then lays exactly the two's-complement bytes in the target's byte order, with the PADDING byte exactly where the manual puts it (C09_int_moto, C09_int_intel, C09_int_moto8, C09_enter_bytes, C09_padding, C09_decode); n DUP (body) lays n copies of any body / reserves n times its size for all n >= 1 (C09_dup, C09_reserve, C09_reserve_moto); Double_2_ieee2 equals round-to-nearest-even (C09_rne characterises the rounding) for all doubles in the half format's normal range incl. exponent carry and overflow rejection (C09_half_partial). Four defects of the unchanged code have proved negations and are reported as known findings.",
    note=TB + "Differentially tested only (9000 slots per quick run on 68000/6809/68HC12/6502/Z80/8086/8051-bigendian, compared cell by cell with model and spec): statements with several arguments, strings, [n] repetition, nested DUP trees as a whole, error paths, '?' mixing, DC.S/D/X, DD/DQ/DT float forms, DFS/RMB/DS. Assumed: the C cast double->float is IEEE round-to-nearest-even and the assembler's decimal->double conversion is correctly rounded (both are exercised against the spec on every float case). Outside the model: expression evaluation (C08), CHARSET maps, single-quoted multi-character constants, word-granular Intel targets, DN, DC.P, TI/National/VAX/IBM float pseudo-ops, the 1 KiB-per-line limit (SetMaxCodeLen). The model is bug-compatible; two self-calibrating probes (dc.c 1.0 on 6809, dw 1.0e-7 on Z80) switch it to the intended behaviour once the defects are repaired.",
    ref='4.9',
)

CLAIMS['C12'] = dict(
    technique='Lean 4 proof (mutual structural induction over first-order skeleton trees with a composable frame predicate: the asmif.c stack machine refines the structural selection; lock-step simulation of the machine with a pushdown recogniser of well-nestedness) + model/impl correspondence on real asl runs (marker bytes in .p, -E error channel)',
    text='Theorems for ALL skeletons (any depth, any number of ELSEIF/CASE branches, IF/IFDEF/IFNDEF/IFUSED/IFNUSED/IFEXIST/IFNEXIST/IFB/IFNB heads, SWITCH with arbitrary CASE value lists + ELSECASE, statements before the first CASE) and ALL statement lists: C12_select (a pass over the flattened skeleton assembles exactly selB = first true branch else default, stack empty, IfAsm on, no crash, no error), C12_select_all_args (no side condition when CodeIFB looks at every argument), C12_other_branches_inert (a skipped well-nested text emits nothing, leaves stack/IfAsm, reports no error), C12_unselected_irrelevant, C12_unbalanced / C12_unbalanced_reported (every ill-nested list ends with a reported error >= 1000, or - with the pinned CodeELSECASE - a crash), C12_balanced_clean + C12_skeletons_wellnested (the converse), C12_finding_* (proved witnesses of the three defects). Correspondence: exhaustive enumeration of all skeletons of <= 2 constructs x all condition vectors, sampled skeletons up to depth 4 / 6 branches with int/float/string selectors and blank/non-blank (macro) arguments, exhaustive + mutated statement streams; model = real asl on every case, spec evaluated on the real output.',
    note=TB + "Modelled, not verified: asmif.c CodeIFs and callees, PushIF, the CodeIFs-first dispatch of as.c Produce_Code and the MissEndif check of AssembleFile_ExitPass as Model/Cond.lean; conditions are abstracted to their evaluated truth value / selector value (expression evaluation is C08's subject; the generator only uses trivially true/false spellings). Three behaviours are model parameters calibrated by probing the real binary every run (CodeIFB index stride, lone ELSECASE crash, ENDCASE warning for a skipped SWITCH); the spec does not depend on them, so the check stays green after the repairs (tried on a scratch copy with the three repairs applied: exit 0, no KNOWN-FINDING line). C12_select needs the side condition faithfulB exactly for IFB/IFNB lines the pinned CodeIFB misjudges (known finding). The exact *number* of 'no CASE hit' warnings is only differentially tested (spec warnB vs real), the theorems state 'nothing but warnings 100'. Outside the model: SaveIFs/RestoreIFs around EXITM (transcribed as restoreIFs, neither proved nor exercised), listing annotations (ListLine, ActiveIF/IFListMask), FirstPassUnknown handling in GetIfVal/EvalIfExpression, SELECT spelling on targets where SWITCH is an instruction. Known findings on the pinned tree: ifb-every-second-argument-skipped, dead-armless-switch-warns, lone-elsecase-segv (shared with C03).",
    ref='4.12',
)

CLAIMS['C05'] = dict(
    technique="Lean 4 proof (induction over the selected-record list with the invariant 'file = prefill overwritten by the records so far'; fold invariants for MeasureFile; table obligations on the regenerated lane table) + model/impl correspondence on generated code files + executable spec on every real output",
    text='Proved for every record list and window (lane ALL): C05_bytes/C05_image/C05_length (after OpenTarget+ProcessFile the file is header + (stop-start+1)*MaxGran bytes and byte p is the byte of the last selected record covering p, else the fill value), C05_autorange (automatic bounds = lowest start / highest last address, MaxGran = largest granularity), C05_checksum (-s: image byte sum = 0 mod 256, other bytes unchanged), C05_header (-S: n-byte little/big endian entry address), C05_lane_table + C05_lane_predicate (the regenerated (SizeDiv,ANDMask,ANDEq) triples are the documented address classes for every byte address), C05_lane_count_aligned, C05_image_fast (executable spec image = declarative one). Correspondence: real p2bin vs Model/P2Bin.lean byte-for-byte (output file, exit status, number of overlap warnings, printed checksum) on ~4.8k (quick) / ~67k (thorough) generated runs incl. the exhaustive lane x record-offset mod 4 x window-offset mod 4 x gran 1/2/4 grid; Spec/P2Bin.lean is evaluated on every real output.',
    note=TB + "Modelled, not verified: p2bin.c MeasureFile/OpenTarget/ProcessFile/CloseTarget/CMD_ByteMode, chunks.c AddChunk/Overlap/SetChunk, toolutils.c FilterOK as Model/P2Bin.lean. NOT proved, only differentially tested: byte placement under -m lanes other than ALL (false on the current tree off lane-period boundaries: C05_finding_lane), the overlap warning (AddChunk; C05_finding_overlap_missed is the proved negation of 'iff'), -f/-segment selection and (offset) handling (C05_finding_filter), the composition of the proved parts into the whole run, command-line parsing, the 4096-byte block loop (modelled as one pass). Five known findings (known_findings.json) are recognised by signature only when the code-following model reproduces the real output exactly; model quirk flags are probed on the real binary each run. Outside the model: relocation records, Gran=0 and -s on an empty image (C03), stdout texts except the checksum value. 'Byte sum zero' is read as the sum over the image after the -S header.",
    ref='4.5',
)

CLAIMS['C06'] = dict(
    technique='Lean 4 proof (hex print/parse round trip, checksum algebra mod 2^8/2^16, line-splitting induction over ErgLen, record-grammar folds) + byte-for-byte model/impl correspondence on real p2hex output + independent Lean decoders (public format definitions) run on every real output',
    text="Proved for all addresses/data/line lengths in range (no size bound): C06_moto_line/_group/_term/_file/C06_moto (S0 + S1/S2/S3 lines for any -l + S9/S8/S7 decode, with valid counts and checksums, to exactly the record's bytes at ErgStart.. and the entry address, stated on the model's emitGroups+terminators for one selected record, +5), C06_intel_line/_group/_file (8-bit Intel HEX incl. EOF record), C06_mos_line_partial (every MOS line whose incoming ChkSum is 0), C06_hex_roundtrip, C06_split_unlines; proved negations C06_finding_mos_running_sum, C06_finding_mos_last_record, C06_finding_tek_byte_sums, C06_finding_moto_count_overflow with concrete witnesses. Intel16/Intel32 (extended address / bank records, 03/05 entry records), S5 count, -s, Tektronix, Atmel generic, C array, -r/-a/-R/-segment clipping, -m 1..3, gran 2/4 and the default format per family (table regenerated from headids.c) have model + decoder and are differentially tested only (model = real text byte for byte; decoder + expected image on the real text).",
    note=TB + "Eight known findings on the unchanged tree (known_findings.json, signatures by input class): MOS running checksum, MOS constant last record, Tektronix byte sums (my reading of the public definition: digit sums; fairly sure), S-record count byte overflow for -l > 252, range checks/record type ignore -R, Intel16 segment truncation above 1 MiB, Intel16 group > 64 KiB wraps, Intel32 bank split counts granules instead of bytes (Gran 2/4; found by the thorough tier). The three MOS/Tek behaviours are flags of the model set by a probe of the real binary, so the check keeps passing after a repair. Outside the model: TI-DSK, Mico8, -f, several source files / name(offset), -d, -k, overlap warnings, ChkSum width taken from reading (Word) not regenerated. S5 is judged as 'number of data records to follow' (AS manual), Intel -i 1/2 end lines only on request, missing Tektronix termination block tolerated, word-addressed targets are generated only inside the first 16K words (plus relocation).",
    ref='4.6',
)

CLAIMS['C07'] = dict(
    technique='Lean 4 proof (induction over source lists and item lists on the byte-level models of toolutils.c/pbind.c/plist.c; header and line-field round trips; totals as a fold) + model/impl correspondence on harness-written code files',
    text="For every list of source files, every item list in any mix of short ($01..$7f) and long ($81) headers, entry records, payloads 0..65535 and every filter state: C07_header_roundtrip (ReadRecordHeader reads back what WriteRecordHeader chose), C07_reader_mixed_forms, C07_conserve (status 0, target = short-preferring serialisation of the filtered concatenation, documented reader returns exactly those items, printed byte counts = sums of copied lengths; hypothesis ChkHarmless: errno clean or ChkIO only after failed writes) and C07_conserve_generated_nonquiet (no such hypothesis for non-quiet runs of the tree as extracted); C07_plist_lines (stdout = header, exactly one line per item, creator, totals), C07_plist_line_fields / C07_plist_entry_line (line read back by words = family, segment, start, length, start+len/gran-1), C07_plist_totals (Sums[z] = fold of record lengths mod 2^32). Negations proved for the three defects of the pinned tree (C07_finding_stale_errno, C07_finding_empty_creator, C07_finding_plist_total_u). Real pbind (quiet/non-quiet, clean/stale errno, -f/+f lists) and plist -q (1..3 files, also on pbind's targets) are compared byte-for-byte with the models and checked by the Lean spec on every run.",
    note=TB + "Generated per run: Granularity table, FileID, BufferSize, Creator, SegNames, FindFamilyById table, plist messages (compiled dumpers that #include pbind.c/plist.c), behaviour probes for WriteRecordHeader's ChkIO-on-success branches and ProcessFile's length check, plist totals format literal (clang AST) - so the model follows a repaired tree and the KNOWN-FINDING lines disappear. Only differentially tested, not proved: CMD_FilterList's array semantics (set semantics computed by the harness), SkipRecord on relocation records ($82-$85, > $85), multi-file plist output, the decimal rendering of totals (read back concretely in C07_finding_plist_total_u only), option parsing/number syntax, file-name suffix handling. Outside the model (result `stuck`): reads past end of file (truncated files: pbind/plist then loop on stale variables - C03), family id 0 (WriteRecordHeader would write it as the $00 end record), segment numbers >= SegCount, granularity 0, unknown-family lines are compared with the model only (plist prints the record *header* `???=81`, not the family id). errno at OpenTarget is an environment parameter of the model: ENOENT unless the *.msg catalogues lie in the current directory (measured with strace).",
    ref='4.7',
)

CLAIMS['C08'] = dict(
    technique='Lean 4 proof (structural induction over formulas: scan-frame invariant for the split rule; table obligations by decide over the regenerated Operators[]; BitVec/Int lemmas for operator bodies; square-and-multiply by induction) + model/impl correspondence on rendered formulas and literal notations',
    text="C08_parse: for every formula (any depth; unary/dyadic operators; calls with 1-3 arguments) and every operator semantics the model of EvalStrExpression (split scan with LKlamm/RKlamm and the per-position candidate loop over the regenerated Operators[], monadic-minus rule, operand count, bracket stripping, QuotPos argument splitting) evaluates the token list of the minimally parenthesised rendering to the structural fold of the formula. C08_table_ranks/_rows/_longest_match/_functions (decide over the generated tables): priorities are a strictly monotone image of the manual's ranks, longest-match condition of the candidate loop, dyadic flags, documented functions present. C08_intops_*: + - * & | ! && || !! comparisons, sign/complement equal the documented value on all of 2^64 x 2^64; / and # everywhere except the UB point -2^63/-1 (explicit); shifts for counts 0..63 (UB outside, explicit); integer ^ = the power for every base and every exponent >= 0. C08_bitfuncs_*: BITCNT, LASTBIT, ABS, SGN equal their bit-level/Int specification for every 64-bit argument, FIRSTBIT for the repaired loop (quirk off; _partial: false on the pinned tree for arguments = 1 mod 4). C08_finding_*: proved negations for six defects of the pinned tree.",
    note=TB + "Token level: the theorem is about evalToks on toks f; that tokenising the rendered text gives toks f (longest match on characters, ConstIntVal/ConstFloatVal of literal texts) is checked by the driver for every generated case (field lex) and by the literal sweep, not proved. Differentially tested only: operator bodies on floats and strings (Lean Float is opaque; 1e-9 tolerance), the pinned FIRSTBIT loop, BITPOS/SingleBit, TOUPPER/TOLOWER, the string functions and >< (loop models compared with bit-level specs on boundary/random arguments; for >< and BITPOS only the negations at the findings are proved), TryConvert type matching, ConstIntVal for 16 notations x RADIX 2..36 x RELAXED/INTSYNTAX on three targets (model and a spec written from the manual's notation table vs asl). Outside the model: libm transcendental functions, symbols/relocations, escapes in string constants, \\{...} nesting. The model carries five quirk flags calibrated by probing the real binary each run so that it keeps following the code after a repair; the SPEC decides violations. 11 known findings (signatures in known_findings.json) are reproduced every run; 'shr-negative-left' and 'shift-count-out-of-range' depend on reading 'log. shift' as logical shift.",
    ref='4.8',
)

CLAIMS['C10'] = dict(
    technique='Lean 4 proof (refinement of a transcription of asmallg.c/as.c WriteCode to an abstract address machine written from the manual, induction over statement lists) + model/impl and spec/impl correspondence on real asl runs (two targets, byte and word granular)',
    text="C10_refine_partial: for EVERY statement list of ORG/RORG/ALIGN/DS/data/SEGMENT/CPU/PHASE/DEPHASE(nested)/SAVE/RESTORE/LISTING/labels outside structure bodies that the manual-derived machine accepts, the model of the C code reports no error, ends in a related state (per-segment counters, phase-offset stacks, save stack, CPU, segment, listing flag) and defines exactly the same label values (load address + active phase offset, mod 2^64); C10_refine_step_partial adds the rejecting direction (address outside the segment, RESTORE on an empty stack, unknown segment, ALIGN 0 => error/crash in the model). Corollaries proved for all states: C10_segments_isolated (PHASE/ORG do not leak), C10_label_value, C10_dephase_restores (incl. empty stack), C10_save_restore, C10_align (next multiple under the explicit Word/LongInt width hypotheses), C10_struct_field / C10_struct_end (single-level STRUCT/UNION: field = offset, 0 in unions, no code, LEN = total/max), C10_tables (generated widths and segment tables = manual's ORG table), C10_finding_org_under_phase (proved negation for the pinned CodeORG_Core).",
    note=TB + "Side conditions of C10_refine_partial are explicit (Pre): counters within +-2^62 and non-negative where addresses are occupied, operands within the C widths, ALIGN without fill byte, ORG only while the phase offset is 0 unless the tree has the repaired CodeORG_Core (flag Cfg.orgLoad, self-calibrated by a probe; likewise Cfg.alignZeroErr). NOT proved, only differentially tested against the real assembler (about 1500 programs / 40k statements per quick run, 0 disagreements) and checked by the executable spec: nested and nameless structures, structures inside unions, ALIGN with fill, statements after the first error, the records of the code file (via the C04 record machine). Outside the model: label post-processing by the TI data pseudo-ops inside structure bodies, targets with their own ChkPC (e.g. PIC16C8x), 32-bit counter effects of CodeALIGN beyond 2^31 (not reachable inside a 64K segment). The spec is my reading of doc/pseudo-instructions.md; where the manual is silent the spec says 'unspecified' and the check stops judging.",
    ref='4.10',
)

NOT_YET = "not claimed yet in this round: model/theorems/correspondence under construction (see DESIGN.md section 8 build order)"


def main():
    hooks_commits = []
    try:
        out = subprocess.run(["git", "-C", "/repo", "log", "--format=%H %s"], stdout=subprocess.PIPE).stdout.decode()
        for line in out.split("\n"):
            if line[41:].startswith("verif-hook:"):
                hooks_commits.append(line[:40])
    except Exception:
        pass
    m = dict(
        version=1,
        setup_cmd="sh scripts/setup.sh",
        hooks=dict(guard="ASL_VERIF", enable="cmake -DCMAKE_C_FLAGS=-DASL_VERIF (vlib/common.py repo_build('hooks'))",
                   baseline_off_cmd="sh scripts/baseline_off.sh", source_commits=hooks_commits, add_only=True),
        engines=[dict(name="lean-proof+correspondence", path="check.py", serves_properties=sorted(CLAIMS),
                      kind_free_text="Lean 4 theorems over executable models (lean/AslModel), tied to /repo by regenerated tables and by a differential run of the rebuilt binaries against the compiled Lean driver")],
        checks=[],
        notes="See DESIGN.md. Every check rebuilds /repo's working tree (content-hash keyed scratch build), regenerates lean/AslModel/Generated, rebuilds and audits the Lean proofs, then runs correspondence + spec-on-implementation.",
        not_applicable=[],
    )
    for p in ALL:
        if p in CLAIMS:
            c = CLAIMS[p]
            m["checks"].append(dict(
                property_id=p,
                quick_cmd="python3 check.py %s --tier quick" % p,
                thorough_cmd="python3 check.py %s --tier thorough" % p,
                evidence_file="evidence/%s.json" % p,
                replay_cmd_template="python3 check.py %s --replay {path}" % p,
                engine="lean-proof+correspondence",
                level_claimed=dict(category=c.get("category", "proof"), text=c["text"], design_ref=c["ref"]),
                level_note=c["note"],
                technique=c["technique"],
            ))
        else:
            m["not_applicable"].append(dict(property_id=p, reason=NA.get(p, NOT_YET)))
    with open(os.path.join(HERE, "MANIFEST.json"), "w") as f:
        json.dump(m, f, indent=1)
    print("claimed:", sorted(CLAIMS))


NA = {}

if __name__ == "__main__":
    main()
