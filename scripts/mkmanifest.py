#!/usr/bin/env python3
"""Writes MANIFEST.json from the table below (one entry per claimed property)."""
import json
import os
import subprocess

HERE = os.path.dirname(os.path.dirname(os.path.abspath(__file__)))
ALL = ["C%02d" % i for i in range(1, 21)]

TB = ("Trusted: Lean 4.33 kernel (+ leanchecker in thorough), axioms propext/Quot.sound/Classical.choice only (audited by #print axioms every run; "
      "no native_decide, no bv_decide, no sorry), translate/tables.py (compiled dumpers / clang AST over the current sources), and the "
      "correspondence check, which is differential testing of the real binaries against the compiled Lean model on generated inputs. ")

CLAIMS = {
    "C04": dict(
        technique="Lean 4 proof (induction over statement lists: record machine preserves cells; reader/writer round trip) + model/impl correspondence on real .p files",
        text="Theorems C04_cells, C04_records_consistent, C04_roundtrip, C04_file_wellformed hold for every statement list (no bound on lengths/interleavings); "
             "the byte-level L1 model of asmcode.c is compared byte-for-byte with real code files and the Lean reader written from doc/file-formats.md is run on every real file.",
        note=TB + "Modelled, not verified: asmcode.c NewRecord/WriteBytes/FlushBuffer/CloseFile as Model/CodeFile.lean; the L1(byte)->L2(record) step is checked by the driver on every case, not yet a theorem. "
             "Relocation records ($82-$85) are outside the model.",
        ref="4.4"),
}

CLAIMS["C02"] = dict(
    technique="Lean 4 proof (invariant: counters = printed counts mod 2^w; induction over diagnostic sequences and file lists) + model/impl correspondence on exit status, code files, counted diagnostics",
    text="Theorems C02_status_iff, C02_codefile_iff, C02_summary_counts, C02_fatal_status, C02_status_range, C02_warnings_harmless hold for all diagnostic sequences, file lists and option records; "
         "the counter width is regenerated from asmerr.c and the hypothesis 'messages per file < 2^width' is explicit (C02_bound_is_necessary proves it cannot be dropped). "
         "Real asl runs (incl. 65535/65536/65537 diagnostics) are compared with the model and checked directly against the statement.",
    note=TB + "Modelled, not verified: WrErrorString/WrXErrorPos classification and counting, -Werror, -w, -maxerrors, AssembleFile tail, main's exit code (Model/ErrCount.lean). "
         "Outside the model: I/O failures (ChkIO, exit 4 start-up errors), EXPECT filtering (C20), multi-pass repetition of warnings (totals are read per final pass).",
    ref="4.2")

CLAIMS["C01"] = dict(
    technique="Lean 4 proof (invariant 'recorded references agree with the table while no repass is requested'; lockstep simulation for the extra pass) + correspondence on pass counts/encoded references + independent resolution oracle on 5 targets + pass-cap search for non-termination",
    text="Theorems C01_refs_final, C01_extra_pass, C01_fixpoint_at_exit hold for every program of the abstract multipass model (any labels/references/value-dependent sizes/padding) and every starting table: whenever the pass loop exits, every reference holds the final value and a further pass reproduces code and symbols. "
         "Termination is NOT a theorem (sizes may oscillate): it is decided by search under a pass cap (hook H1); C01_finding_padding_livelock proves the pre-fix non-termination. "
         "Real asl: pass counts and encoded references are compared with the model (6502 direct/absolute, 68000 padding), a marker/mini-decoder oracle checks that every reference encodes the address of its label on 6502/6809/68HC11/68000/8086, and generated + golden-corpus sources are re-assembled with one forced extra pass and compared byte-for-byte.",
    note=TB + "Modelled, not verified: LookupSymbol (unknown => PC, Repass), SymbolAdder value comparison, LabelModify after InsertPadding, the pass loop (Model/Pass.lean). "
         "Outside the model: EQU expressions, JmpErrors/-Y, the instruction encoders (sizes are abstract functions; the oracle's mini decoders cover lda/ldaa/jmp/bra/data words only). Partial: termination clause by search only.",
    ref="4.1")

NOT_YET = "not claimed yet in this round: model/theorems/correspondence under construction (see DESIGN.md section 8 build order)"


def main():
    hooks_commits = []
    try:
        out = subprocess.run(["git", "-C", "/repo", "log", "--format=%H %s"], stdout=subprocess.PIPE).stdout.decode()
        for line in out.split("\n"):
            if line[41:].startswith("verif-hook:"):
                hooks_commits.append(line[:40])
    except Exception:
        pass
    m = dict(
        version=1,
        setup_cmd="sh scripts/setup.sh",
        hooks=dict(guard="ASL_VERIF", enable="cmake -DCMAKE_C_FLAGS=-DASL_VERIF (vlib/common.py repo_build('hooks'))",
                   baseline_off_cmd="sh scripts/baseline_off.sh", source_commits=hooks_commits, add_only=True),
        engines=[dict(name="lean-proof+correspondence", path="check.py", serves_properties=sorted(CLAIMS),
                      kind_free_text="Lean 4 theorems over executable models (lean/AslModel), tied to /repo by regenerated tables and by a differential run of the rebuilt binaries against the compiled Lean driver")],
        checks=[],
        notes="See DESIGN.md. Every check rebuilds /repo's working tree (content-hash keyed scratch build), regenerates lean/AslModel/Generated, rebuilds and audits the Lean proofs, then runs correspondence + spec-on-implementation.",
        not_applicable=[],
    )
    for p in ALL:
        if p in CLAIMS:
            c = CLAIMS[p]
            m["checks"].append(dict(
                property_id=p,
                quick_cmd="python3 check.py %s --tier quick" % p,
                thorough_cmd="python3 check.py %s --tier thorough" % p,
                evidence_file="evidence/%s.json" % p,
                replay_cmd_template="python3 check.py %s --replay {path}" % p,
                engine="lean-proof+correspondence",
                level_claimed=dict(category=c.get("category", "proof"), text=c["text"], design_ref=c["ref"]),
                level_note=c["note"],
                technique=c["technique"],
            ))
        else:
            m["not_applicable"].append(dict(property_id=p, reason=NA.get(p, NOT_YET)))
    with open(os.path.join(HERE, "MANIFEST.json"), "w") as f:
        json.dump(m, f, indent=1)
    print("claimed:", sorted(CLAIMS))


NA = {}

if __name__ == "__main__":
    main()
