#!/usr/bin/env python3
"""Writes MANIFEST.json from the table below (one entry per claimed property)."""
import json
import os
import subprocess

HERE = os.path.dirname(os.path.dirname(os.path.abspath(__file__)))
ALL = ["C%02d" % i for i in range(1, 21)]

TB = ("Trusted: Lean 4.33 kernel (+ leanchecker in thorough), axioms propext/Quot.sound/Classical.choice only (audited by #print axioms every run; "
      "no native_decide, no bv_decide, no sorry), translate/tables.py (compiled dumpers / clang AST over the current sources), and the "
      "correspondence check, which is differential testing of the real binaries against the compiled Lean model on generated inputs. ")

CLAIMS = {
    "C04": dict(
        technique="Lean 4 proof (induction over statement lists: record machine preserves cells; reader/writer round trip) + model/impl correspondence on real .p files",
        text="Theorems C04_cells, C04_records_consistent, C04_roundtrip, C04_file_wellformed hold for every statement list (no bound on lengths/interleavings); "
             "the byte-level L1 model of asmcode.c is compared byte-for-byte with real code files and the Lean reader written from doc/file-formats.md is run on every real file.",
        note=TB + "Modelled, not verified: asmcode.c NewRecord/WriteBytes/FlushBuffer/CloseFile as Model/CodeFile.lean; the L1(byte)->L2(record) step is checked by the driver on every case, not yet a theorem. "
             "Relocation records ($82-$85) are outside the model.",
        ref="4.4"),
}

CLAIMS["C02"] = dict(
    technique="Lean 4 proof (invariant: counters = printed counts mod 2^w; induction over diagnostic sequences and file lists) + model/impl correspondence on exit status, code files, counted diagnostics",
    text="Theorems C02_status_iff, C02_codefile_iff, C02_summary_counts, C02_fatal_status, C02_status_range, C02_warnings_harmless hold for all diagnostic sequences, file lists and option records; "
         "the counter width is regenerated from asmerr.c and the hypothesis 'messages per file < 2^width' is explicit (C02_bound_is_necessary proves it cannot be dropped). "
         "Real asl runs (incl. 65535/65536/65537 diagnostics) are compared with the model and checked directly against the statement.",
    note=TB + "Modelled, not verified: WrErrorString/WrXErrorPos classification and counting, -Werror, -w, -maxerrors, AssembleFile tail, main's exit code (Model/ErrCount.lean). "
         "Outside the model: I/O failures (ChkIO, exit 4 start-up errors), EXPECT filtering (C20), multi-pass repetition of warnings (totals are read per final pass).",
    ref="4.2")

CLAIMS["C01"] = dict(
    technique="Lean 4 proof (invariant 'recorded references agree with the table while no repass is requested'; lockstep simulation for the extra pass) + correspondence on pass counts/encoded references + independent resolution oracle on 5 targets + pass-cap search for non-termination",
    text="Theorems C01_refs_final, C01_extra_pass, C01_fixpoint_at_exit hold for every program of the abstract multipass model (any labels/references/value-dependent sizes/padding) and every starting table: whenever the pass loop exits, every reference holds the final value and a further pass reproduces code and symbols. "
         "Termination is NOT a theorem (sizes may oscillate): it is decided by search under a pass cap (hook H1); C01_finding_padding_livelock proves the pre-fix non-termination. "
         "Real asl: pass counts and encoded references are compared with the model (6502 direct/absolute, 68000 padding), a marker/mini-decoder oracle checks that every reference encodes the address of its label on 6502/6809/68HC11/68000/8086, and generated + golden-corpus sources are re-assembled with one forced extra pass and compared byte-for-byte.",
    note=TB + "Modelled, not verified: LookupSymbol (unknown => PC, Repass), SymbolAdder value comparison, LabelModify after InsertPadding, the pass loop (Model/Pass.lean). "
         "Outside the model: EQU expressions, JmpErrors/-Y, the instruction encoders (sizes are abstract functions; the oracle's mini decoders cover lda/ldaa/jmp/bra/data words only). Partial: termination clause by search only.",
    ref="4.1")

CLAIMS['C09'] = dict(
    technique='Lean 4 proof (omega over div/mod transcriptions of the byte helpers and of Double_2_ieee2; induction for DUP replication and the byte decoder; decide over the regenerated IntTypeDefs table) + model/impl correspondence on real code files + spec-on-implementation',
    text="Proved for every value the 64-bit evaluator can deliver: a DC.B/W/L/Q (68000 word-listed and 6809/68HC12 byte-listed), DB/DW/DD/DQ (little and big endian) or BYT/FCB/ADR/FDB statement with one integer argument is accepted iff -2^(w-1) <= v < 2^w (RangeCheck over the IntTypeDefs table regenerated from asmpars.c each run) and then lays exactly the two's-complement bytes in the target's byte order, with the PADDING byte exactly where the manual puts it (C09_int_moto, C09_int_intel, C09_int_moto8, C09_enter_bytes, C09_padding, C09_decode); n DUP (body) lays n copies of any body / reserves n times its size for all n >= 1 (C09_dup, C09_reserve, C09_reserve_moto); Double_2_ieee2 equals round-to-nearest-even (C09_rne characterises the rounding) for all doubles in the half format's normal range incl. exponent carry and overflow rejection (C09_half_partial). Four defects of the unchanged code have proved negations and are reported as known findings.",
    note=TB + "Differentially tested only (9000 slots per quick run on 68000/6809/68HC12/6502/Z80/8086/8051-bigendian, compared cell by cell with model and spec): statements with several arguments, strings, [n] repetition, nested DUP trees as a whole, error paths, '?' mixing, DC.S/D/X, DD/DQ/DT float forms, DFS/RMB/DS. Assumed: the C cast double->float is IEEE round-to-nearest-even and the assembler's decimal->double conversion is correctly rounded (both are exercised against the spec on every float case). Outside the model: expression evaluation (C08), CHARSET maps, single-quoted multi-character constants, word-granular Intel targets, DN, DC.P, TI/National/VAX/IBM float pseudo-ops, the 1 KiB-per-line limit (SetMaxCodeLen). The model is bug-compatible; two self-calibrating probes (dc.c 1.0 on 6809, dw 1.0e-7 on Z80) switch it to the intended behaviour once the defects are repaired.",
    ref='4.9',
)

CLAIMS['C12'] = dict(
    technique='Lean 4 proof (mutual structural induction over first-order skeleton trees with a composable frame predicate: the asmif.c stack machine refines the structural selection; lock-step simulation of the machine with a pushdown recogniser of well-nestedness) + model/impl correspondence on real asl runs (marker bytes in .p, -E error channel)',
    text='Theorems for ALL skeletons (any depth, any number of ELSEIF/CASE branches, IF/IFDEF/IFNDEF/IFUSED/IFNUSED/IFEXIST/IFNEXIST/IFB/IFNB heads, SWITCH with arbitrary CASE value lists + ELSECASE, statements before the first CASE) and ALL statement lists: C12_select (a pass over the flattened skeleton assembles exactly selB = first true branch else default, stack empty, IfAsm on, no crash, no error), C12_select_all_args (no side condition when CodeIFB looks at every argument), C12_other_branches_inert (a skipped well-nested text emits nothing, leaves stack/IfAsm, reports no error), C12_unselected_irrelevant, C12_unbalanced / C12_unbalanced_reported (every ill-nested list ends with a reported error >= 1000, or - with the pinned CodeELSECASE - a crash), C12_balanced_clean + C12_skeletons_wellnested (the converse), C12_finding_* (proved witnesses of the three defects). Correspondence: exhaustive enumeration of all skeletons of <= 2 constructs x all condition vectors, sampled skeletons up to depth 4 / 6 branches with int/float/string selectors and blank/non-blank (macro) arguments, exhaustive + mutated statement streams; model = real asl on every case, spec evaluated on the real output.',
    note=TB + "Modelled, not verified: asmif.c CodeIFs and callees, PushIF, the CodeIFs-first dispatch of as.c Produce_Code and the MissEndif check of AssembleFile_ExitPass as Model/Cond.lean; conditions are abstracted to their evaluated truth value / selector value (expression evaluation is C08's subject; the generator only uses trivially true/false spellings). Three behaviours are model parameters calibrated by probing the real binary every run (CodeIFB index stride, lone ELSECASE crash, ENDCASE warning for a skipped SWITCH); the spec does not depend on them, so the check stays green after the repairs (tried on a scratch copy with the three repairs applied: exit 0, no KNOWN-FINDING line). C12_select needs the side condition faithfulB exactly for IFB/IFNB lines the pinned CodeIFB misjudges (known finding). The exact *number* of 'no CASE hit' warnings is only differentially tested (spec warnB vs real), the theorems state 'nothing but warnings 100'. Outside the model: SaveIFs/RestoreIFs around EXITM (transcribed as restoreIFs, neither proved nor exercised), listing annotations (ListLine, ActiveIF/IFListMask), FirstPassUnknown handling in GetIfVal/EvalIfExpression, SELECT spelling on targets where SWITCH is an instruction. Known findings on the pinned tree: ifb-every-second-argument-skipped, dead-armless-switch-warns, lone-elsecase-segv (shared with C03).",
    ref='4.12',
)

NOT_YET = "not claimed yet in this round: model/theorems/correspondence under construction (see DESIGN.md section 8 build order)"


def main():
    hooks_commits = []
    try:
        out = subprocess.run(["git", "-C", "/repo", "log", "--format=%H %s"], stdout=subprocess.PIPE).stdout.decode()
        for line in out.split("\n"):
            if line[41:].startswith("verif-hook:"):
                hooks_commits.append(line[:40])
    except Exception:
        pass
    m = dict(
        version=1,
        setup_cmd="sh scripts/setup.sh",
        hooks=dict(guard="ASL_VERIF", enable="cmake -DCMAKE_C_FLAGS=-DASL_VERIF (vlib/common.py repo_build('hooks'))",
                   baseline_off_cmd="sh scripts/baseline_off.sh", source_commits=hooks_commits, add_only=True),
        engines=[dict(name="lean-proof+correspondence", path="check.py", serves_properties=sorted(CLAIMS),
                      kind_free_text="Lean 4 theorems over executable models (lean/AslModel), tied to /repo by regenerated tables and by a differential run of the rebuilt binaries against the compiled Lean driver")],
        checks=[],
        notes="See DESIGN.md. Every check rebuilds /repo's working tree (content-hash keyed scratch build), regenerates lean/AslModel/Generated, rebuilds and audits the Lean proofs, then runs correspondence + spec-on-implementation.",
        not_applicable=[],
    )
    for p in ALL:
        if p in CLAIMS:
            c = CLAIMS[p]
            m["checks"].append(dict(
                property_id=p,
                quick_cmd="python3 check.py %s --tier quick" % p,
                thorough_cmd="python3 check.py %s --tier thorough" % p,
                evidence_file="evidence/%s.json" % p,
                replay_cmd_template="python3 check.py %s --replay {path}" % p,
                engine="lean-proof+correspondence",
                level_claimed=dict(category=c.get("category", "proof"), text=c["text"], design_ref=c["ref"]),
                level_note=c["note"],
                technique=c["technique"],
            ))
        else:
            m["not_applicable"].append(dict(property_id=p, reason=NA.get(p, NOT_YET)))
    with open(os.path.join(HERE, "MANIFEST.json"), "w") as f:
        json.dump(m, f, indent=1)
    print("claimed:", sorted(CLAIMS))


NA = {}

if __name__ == "__main__":
    main()
