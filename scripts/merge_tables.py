#!/usr/bin/env python3
"""merge_tables.py <worker verif dir>...: add the workers' new top-level definitions and GENERATORS entries to translate/tables.py"""
import ast, re, sys, os, subprocess
HERE = os.path.dirname(os.path.dirname(os.path.abspath(__file__)))
cur_path = os.path.join(HERE, 'translate', 'tables.py')
pass  # (the lead keeps tables.py as it is; new definitions are appended)
cur = open(cur_path).read()

def toplevel(src):
    tree = ast.parse(src); out = {}; lines = src.split('\n')
    for n in tree.body:
        if isinstance(n, (ast.FunctionDef, ast.ClassDef)):
            start = n.lineno - 1
            if n.decorator_list: start = n.decorator_list[0].lineno - 1
            out[n.name] = '\n'.join(lines[start:n.end_lineno])
        elif isinstance(n, ast.Assign) and len(n.targets) == 1 and isinstance(n.targets[0], ast.Name):
            out[n.targets[0].id] = '\n'.join(lines[n.lineno - 1:n.end_lineno])
        elif isinstance(n, (ast.Import, ast.ImportFrom)):
            out['__import__' + ast.unparse(n)] = ast.unparse(n)
    return out

have = toplevel(cur); adds = []; gens = []; imports = []
for d in sys.argv[1:]:
    src = open(os.path.join(d, 'translate', 'tables.py')).read()
    for k, v in toplevel(src).items():
        if k.startswith('__import__'):
            if k not in have and v not in imports: imports.append(v)
        elif k == 'GENERATORS':
            for m in re.findall(r'"(\w+)":\s*(\w+)', v):
                if m not in gens: gens.append(m)
        elif k not in have:
            adds.append('# ---- from worker %s\n' % d + v); have[k] = v
        elif have[k] != v:
            print('DIFFERS (kept ours):', d, k)
i = cur.index('GENERATORS = {')
new = cur[:i] + ('\n\n\n'.join(adds) + '\n\n\n' if adds else '') + cur[i:]
j = new.index('GENERATORS = {'); k = new.index('\n}', j)
body = new[j:k]
for name, fn in gens:
    if '"%s"' % name not in body:
        body += '\n    "%s": %s,' % (name, fn)
new = new[:j] + body + new[k:]
if imports:
    new = new.replace('import sys\n', 'import sys\n' + '\n'.join(imports) + '\n', 1)
open(cur_path, 'w').write(new)
ast.parse(new)
print('added', len(adds), 'definitions;', [g[0] for g in gens])
