#!/usr/bin/env python3
"""seeded.py add <id> <patch> <demo> <meta.json> <property>   - store a confirmed seeded change under seeded/<id>/
   seeded.py run [<id> ...] [--thorough]                      - apply each to a scratch copy of /repo, run the property's check; print a table
   seeded.py run --harmless [<id> ...]                        - the same for the behaviour-preserving rewrites under harmless/<id>/ (expected: QUIET)"""
import json
import os
import shutil
import subprocess
import sys

HERE = os.path.dirname(os.path.dirname(os.path.abspath(__file__)))
SD = os.path.join(HERE, "seeded")
CHECK = os.path.join(HERE, "check.py")


def add(sid, patch, demo, meta, prop):
    d = os.path.join(SD, sid)
    os.makedirs(d, exist_ok=True)
    shutil.copy(patch, os.path.join(d, "patch.diff"))
    shutil.copy(demo, os.path.join(d, "demo.sh"))
    m = json.load(open(meta))
    m["property"] = prop
    m["id"] = sid
    json.dump(m, open(os.path.join(d, "meta.json"), "w"), indent=1)
    print("stored", d)


def run(ids, tier="quick", seeds=("1",)):
    if not ids:
        ids = sorted(x for x in os.listdir(SD) if os.path.isdir(os.path.join(SD, x)))
    rows = []
    # the checks regenerate lean/AslModel/Generated from the tree they are pointed at and rebuild the driver: runs on changed
    # trees work in a private snapshot of the whole framework (python + Lean project with its build), so that they cannot
    # disturb - or be disturbed by - checks run on /repo itself or edits made to /verif while they run
    snap = "/var/tmp/asl-verif-seeded/verif-%d" % os.getpid()
    os.makedirs(os.path.dirname(snap), exist_ok=True)
    subprocess.run(["rsync", "-a", "--delete", "--exclude", ".git", "--exclude", "replays", "--exclude", "__pycache__", HERE + "/", snap + "/"], check=True)
    os.environ["VERIF_SCRATCH"] = "/var/tmp/asl-verif-seeded"
    for k in ("VERIF_LEAN", "VERIF_OUT"):
        os.environ.pop(k, None)
    global CHECK
    CHECK = os.path.join(snap, "check.py")
    try:
        return _run(ids, tier, seeds, rows)
    finally:
        shutil.rmtree(snap, ignore_errors=True)


def _run(ids, tier, seeds, rows):
    for sid in ids:
        d = os.path.join(SD, sid)
        meta = json.load(open(os.path.join(d, "meta.json")))
        prop = meta["property"]
        # the change is applied to a scratch copy of /repo's current tree (VERIF_REPO), so that nothing else
        # that uses /repo at the same time is disturbed; the checks rebuild from that copy
        copy = "/var/tmp/asl-verif-seeded/seedrepo-%s-%d" % (sid, os.getpid())
        shutil.rmtree(copy, ignore_errors=True)
        os.makedirs(os.path.dirname(copy), exist_ok=True)
        subprocess.run(["rsync", "-a", "--exclude", "_build", "--exclude", ".git", "/repo/", copy + "/"], check=True)
        r = subprocess.run(["patch", "-p1", "-s", "-d", copy, "-i", os.path.join(d, "patch.diff")], stdout=subprocess.PIPE, stderr=subprocess.STDOUT)
        if r.returncode != 0:
            rows.append((sid, prop, "patch-does-not-apply", r.stdout.decode()[-200:]))
            print(rows[-1], flush=True)
            shutil.rmtree(copy, ignore_errors=True)
            continue
        try:
            outs = []
            for seed in seeds:
                r = subprocess.run([sys.executable, CHECK, prop, "--tier", tier], stdout=subprocess.PIPE, stderr=subprocess.PIPE,
                                   env=dict(os.environ, VERIF_SEED=seed, VERIF_REPO=copy))
                lines = [l for l in r.stdout.decode().split("\n") if l.startswith("VIOLATION")]
                outs.append((r.returncode, lines[:1]))
        finally:
            shutil.rmtree(copy, ignore_errors=True)
        caught = all(rc == 1 for rc, _ in outs)
        broken = [rc for rc, _ in outs if rc not in (0, 1)]
        kind = ""
        if outs and outs[0][1]:
            kind = "no-failing-input-found" if "no-failing-input-found" in outs[0][1][0] else "with-failing-input"
        if os.path.basename(SD) == "harmless":
            # behaviour-preserving rewrites: the check is expected to stay quiet
            rows.append((sid, prop, ("CHECK-ERROR rc=%s" % broken[0]) if broken else "ALARM" if any(rc == 1 for rc, _ in outs) else "QUIET", kind))
        else:
            rows.append((sid, prop, ("CHECK-ERROR rc=%s" % broken[0]) if broken else "CAUGHT" if caught else ("partly" if any(rc == 1 for rc, _ in outs) else "MISSED"), kind))
        print(rows[-1], flush=True)
        record(sid, tier, rows[-1][2], kind)
    return rows


def record(sid, tier, outcome, kind):
    """seeded/RESULTS.json: last outcome of every seeded change per tier (read by scripts/mkstatus.py for DESIGN.md)"""
    import fcntl
    p = os.path.join(SD, "RESULTS.json")
    with open(p + ".lock", "w") as lk:          # several `seeded.py run` processes may work on disjoint ids at once
        fcntl.flock(lk, fcntl.LOCK_EX)
        d = json.load(open(p)) if os.path.exists(p) else {}
        d.setdefault(sid, {})[tier] = dict(outcome=outcome, kind=kind)
        json.dump(d, open(p + ".tmp", "w"), indent=1, sort_keys=True)
        os.replace(p + ".tmp", p)


def confirm(sid):
    """independent confirmation in a scratch worktree: builds with and without the change, whole test suite with the
    change, demo on both builds.  Records the outcome in meta.json."""
    d = os.path.join(SD, sid)
    wt = "/tmp/mut/confirm-" + sid
    subprocess.run(["git", "-C", "/repo", "worktree", "remove", "--force", wt], stderr=subprocess.DEVNULL)
    shutil.rmtree(wt, ignore_errors=True)
    subprocess.run(["git", "-C", "/repo", "worktree", "add", "-f", "--detach", wt, "HEAD"], check=True, stdout=subprocess.DEVNULL, stderr=subprocess.DEVNULL)
    res = {}
    try:
        def build(bd):
            subprocess.run(["cmake", "-G", "Ninja", "-S", wt, "-B", bd, "-DCMAKE_BUILD_TYPE=Release"], stdout=subprocess.DEVNULL, stderr=subprocess.DEVNULL, check=True)
            return subprocess.run(["cmake", "--build", bd, "-j16"], stdout=subprocess.DEVNULL, stderr=subprocess.DEVNULL).returncode
        res["build_clean"] = build(wt + "/_b0")
        r = subprocess.run(["sh", os.path.join(d, "demo.sh"), wt + "/_b0", wt], stdout=subprocess.PIPE, stderr=subprocess.STDOUT)
        res["demo_on_clean_rc"] = r.returncode
        a = subprocess.run(["git", "-C", wt, "apply", os.path.join(d, "patch.diff")])
        res["patch_applies"] = a.returncode == 0
        res["build_changed"] = build(wt + "/_b1")
        r = subprocess.run(["ctest", "--test-dir", wt + "/_b1", "-j8", "--timeout", "900"], stdout=subprocess.PIPE, stderr=subprocess.STDOUT)
        tail = r.stdout.decode(errors="replace").strip().split("\n")
        res["ctest_with_change"] = [l for l in tail if "tests passed" in l or "tests failed" in l][:1]
        r = subprocess.run(["sh", os.path.join(d, "demo.sh"), wt + "/_b1", wt], stdout=subprocess.PIPE, stderr=subprocess.STDOUT)
        res["demo_on_changed_rc"] = r.returncode
        res["demo_on_changed_tail"] = r.stdout.decode(errors="replace")[-300:]
    finally:
        subprocess.run(["git", "-C", "/repo", "worktree", "remove", "--force", wt], stderr=subprocess.DEVNULL)
        shutil.rmtree(wt, ignore_errors=True)
    res["confirmed"] = bool(res.get("demo_on_clean_rc") == 0 and res.get("demo_on_changed_rc") not in (0, None) and res.get("patch_applies")
                            and res.get("ctest_with_change") and "100% tests passed" in res["ctest_with_change"][0])
    mp = os.path.join(d, "meta.json")
    m = json.load(open(mp))
    m["confirmation"] = dict(what_i_ran="scratch worktree of /repo HEAD: cmake+ninja build without and with patch.diff; ctest -j8 (201 tests) with the change; demo.sh <build> <repo> on both builds", **res)
    json.dump(m, open(mp, "w"), indent=1)
    print(sid, "confirmed" if res["confirmed"] else "NOT CONFIRMED", res)
    return res["confirmed"]


if __name__ == "__main__":
    if sys.argv[1] == "confirm":
        for s in sys.argv[2:]:
            confirm(s)
    elif sys.argv[1] == "add":
        add(*sys.argv[2:7])
    else:
        if "--harmless" in sys.argv:
            # behaviour-preserving rewrites (harmless/<id>/patch.diff + meta.json): same procedure, the expectation is QUIET
            SD = os.path.join(HERE, "harmless")
        a = [x for x in sys.argv[2:] if not x.startswith("--")]
        tier = "thorough" if "--thorough" in sys.argv else "quick"
        run(a, tier)
