#!/bin/sh
# mkworker.sh <id> : private copy of the framework for a worker sub-agent (verif = working copy, base = untouched reference for
# the 3-way merge of scripts/integrate.py, scratch = private build cache)
set -e
D=/var/tmp/agents/$1
rm -rf "$D"; mkdir -p "$D/scratch"
rsync -a --exclude .git --exclude replays --exclude __pycache__ /verif/ "$D/verif/"
rsync -a --exclude .git --exclude replays --exclude __pycache__ --exclude .lake /verif/ "$D/base/"
echo "$D"
