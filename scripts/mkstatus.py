#!/usr/bin/env python3
"""mkstatus.py: regenerate the machine-made tables of DESIGN.md section 10 (between the STATUS markers) from
evidence/*.json, known_findings.json, seeded/*/meta.json + seeded/RESULTS.json, the Lean sources and /repo's git log."""
import glob
import json
import os
import re
import subprocess

HERE = os.path.dirname(os.path.dirname(os.path.abspath(__file__)))


def sh(*a):
    return subprocess.run(a, stdout=subprocess.PIPE, stderr=subprocess.DEVNULL).stdout.decode(errors="replace")


def lean_stats():
    out = {}
    for sub in ("Spec", "Model", "Lemmas", "Props", "Generated"):
        n = 0
        for root, _d, fs in os.walk(os.path.join(HERE, "lean", "AslModel", sub)):
            for f in fs:
                if f.endswith(".lean"):
                    n += sum(1 for _ in open(os.path.join(root, f), errors="replace"))
        out[sub] = n
    out["Driver"] = sum(sum(1 for _ in open(f, errors="replace")) for f in glob.glob(os.path.join(HERE, "lean", "Driver", "*.lean")))
    return out


def theorems_of(prop):
    names = []
    pdir = os.path.join(HERE, "lean", "AslModel", "Props")
    for f in sorted(os.listdir(pdir)):
        if f == prop + ".lean" or (f.startswith(prop + "_") and f.endswith(".lean")):
            for l in open(os.path.join(pdir, f), errors="replace"):
                m = re.match(r"\s*theorem\s+(\S+)", l)
                if m:
                    names.append(m.group(1))
    return names


def main():
    L = []
    ls = lean_stats()
    L.append("Lean sources (lines): " + ", ".join("%s %d" % kv for kv in ls.items()) + ".\n")
    # per property
    L.append("| id | theorems (audited) | of which `_finding_`/`_partial`/`_pinned` | quick: evaluations / distinct non-trivial | quick wall s | known findings | fixed |")
    L.append("|---|---|---|---|---|---|---|")
    kf = json.load(open(os.path.join(HERE, "known_findings.json")))
    for i in range(1, 21):
        p = "C%02d" % i
        th = theorems_of(p)
        ev = {}
        try:
            ev = json.load(open(os.path.join(HERE, "evidence", p + ".json")))
        except OSError:
            pass
        c = ev.get("coverage", {})
        nf = sum(1 for t in th if "_finding_" in t)
        npar = sum(1 for t in th if t.endswith("_partial") or "_partial_" in t)
        npin = sum(1 for t in th if "_pinned" in t)
        L.append("| %s | %d | %d / %d / %d | %s / %s | %s | %d | %d |" % (
            p, len(th), nf, npar, npin, c.get("evaluations", "?"), c.get("distinct_nontrivial", "?"), ev.get("wall_s", "?"),
            sum(1 for e in kf["known"] if e["property"] == p), sum(1 for e in kf["fixed"] if e["property"] == p)))
    L.append("")
    # fixes
    log = sh("git", "-C", "/repo", "log", "--format=%h %s").strip().split("\n")
    fixes = [l for l in log if l.split(" ", 1)[1].startswith("fix:")]
    L.append("`fix:` commits in /repo (%d; each followed by the unedited 201-test suite with the guard off, all passing):\n" % len(fixes))
    for l in reversed(fixes):
        L.append("* `%s` %s" % tuple(l.split(" ", 1)))
    L.append("")
    L.append("Known findings still open (%d; `known_findings.json`, printed as KNOWN-FINDING by the owning check):\n" % len(kf["known"]))
    for e in kf["known"]:
        L.append("* %s `%s` – %s" % (e["property"], e["sig"], e["what"].split(": ", 1)[0][:160].replace("\n", " ") + ("…" if len(e["what"]) > 160 else "")))
    L.append("")
    # seeded matrix
    res = {}
    rp = os.path.join(HERE, "seeded", "RESULTS.json")
    if os.path.exists(rp):
        res = json.load(open(rp))
    L.append("Seeded changes (written by independent sub-agents that saw only the property text; each confirmed in a scratch worktree: builds, 201 tests pass, demo fails with / passes without the change). "
             "`quick`/`thorough` = outcome of the owning check on a scratch copy of /repo with the change applied:\n")
    L.append("| id | what the change is (first sentence of its meta.json) | quick | thorough |")
    L.append("|---|---|---|---|")
    for d in sorted(glob.glob(os.path.join(HERE, "seeded", "*", "meta.json"))):
        m = json.load(open(d))
        sid = m.get("id") or os.path.basename(os.path.dirname(d))
        r = res.get(sid, {})

        def fmt(t):
            x = r.get(t)
            if not x:
                return "-"
            return x["outcome"] + (" (%s)" % x["kind"] if x.get("kind") else "")
        summ = re.split(r"(?<=[.;])\s", m.get("summary", "").replace("\n", " ").replace("|", "/"))[0][:200]
        L.append("| %s | %s | %s | %s |" % (sid, summ, fmt("quick"), fmt("thorough")))
    # behaviour-preserving rewrites
    hres = {}
    hp = os.path.join(HERE, "harmless", "RESULTS.json")
    if os.path.exists(hp):
        hres = json.load(open(hp))
    L.append("")
    L.append("Behaviour-preserving rewrites (`harmless/<id>/`; expected outcome of the owning check: QUIET):\n")
    L.append("| id | what was rewritten | quick |")
    L.append("|---|---|---|")
    for d in sorted(glob.glob(os.path.join(HERE, "harmless", "*", "meta.json"))):
        m = json.load(open(d))
        sid = m.get("id") or os.path.basename(os.path.dirname(d))
        x = hres.get(sid, {}).get("quick")
        summ = re.split(r"(?<=[.;])\s", m.get("summary", "").replace("\n", " ").replace("|", "/"))[0][:200]
        L.append("| %s | %s | %s |" % (sid, summ, (x["outcome"] + (" (%s)" % x["kind"] if x.get("kind") else "")) if x else "-"))
    text = "\n".join(L) + "\n"
    dp = os.path.join(HERE, "DESIGN.md")
    s = open(dp).read()
    a, b = "<!-- STATUS:BEGIN -->", "<!-- STATUS:END -->"
    if a in s and b in s:
        s = s[:s.index(a) + len(a)] + "\n" + text + s[s.index(b):]
        open(dp, "w").write(s)
        print("DESIGN.md status tables regenerated")
    else:
        print(text)


if __name__ == "__main__":
    main()
