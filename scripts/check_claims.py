#!/usr/bin/env python3
"""check_claims.py: every theorem name MANIFEST.json mentions (C\\d\\d_...) must exist as a `theorem` in lean/AslModel/Props
(a name followed by `_*`, `/_suffix` shorthand or `{a,b}` is expanded loosely: the prefix must match at least one theorem)."""
import glob
import json
import os
import re
import sys

HERE = os.path.dirname(os.path.dirname(os.path.abspath(__file__)))
thms = set()
files = set(os.path.basename(f)[:-5] for f in glob.glob(os.path.join(HERE, "lean", "AslModel", "Props", "*.lean")))
for f in glob.glob(os.path.join(HERE, "lean", "AslModel", "Props", "*.lean")):
    for l in open(f, errors="replace"):
        m = re.match(r"\s*theorem\s+(\S+)", l)
        if m:
            thms.add(m.group(1).split(".")[-1])
m = json.load(open(os.path.join(HERE, "MANIFEST.json")))
bad = 0
for c in m["checks"]:
    text = c["level_claimed"]["text"] + " " + c["level_note"]
    for name in sorted(set(re.findall(r"\bC\d\d_[A-Za-z0-9_]+", text))):
        n = name.rstrip("_")
        if n in files or n in thms or any(t.startswith(n) for t in thms):
            continue
        print("%s: `%s` is not a theorem of Props/" % (c["property_id"], name))
        bad += 1
print("stale names:", bad)
sys.exit(1 if bad else 0)
