#!/usr/bin/env python3
"""Entry point: check.py <Cxx> [--tier quick|thorough] [--replay FILE]

exit 0 = property held on everything explored; exit 1 + `VIOLATION property=<id> replay=<path>` otherwise.
Honours VERIF_SEED / VERIF_TIER.  Rewrites evidence/<id>.json on every run.
"""
import argparse
import importlib
import os
import sys
import traceback

HERE = os.path.dirname(os.path.abspath(__file__))
sys.path.insert(0, HERE)


def main():
    ap = argparse.ArgumentParser()
    ap.add_argument("prop")
    ap.add_argument("--tier", default=os.environ.get("VERIF_TIER") or "quick", choices=["quick", "thorough"])
    ap.add_argument("--seed", type=int, default=int(os.environ.get("VERIF_SEED") or "1"))
    ap.add_argument("--replay", default=None)
    args = ap.parse_args()
    ev = os.path.join(os.environ.get("VERIF_OUT") or HERE, "evidence", args.prop + ".json")
    if os.path.exists(ev):
        os.unlink(ev)
    mod = importlib.import_module("vlib.props." + args.prop.lower())
    if args.replay:
        return mod.replay(args)
    return mod.run(args)


if __name__ == "__main__":
    try:
        sys.exit(main())
    except SystemExit:
        raise
    except Exception:
        traceback.print_exc()
        sys.exit(3)
