"""Self-test of translate/statics.py on a synthetic code generator: every classification rule on a pattern whose
answer is known.  Run by the C18 check (a wrong answer is reported like a broken translator) and by hand:
    python3 translate/statics_selftest.py
"""
import json
import os
import subprocess
import sys
import tempfile

sys.path.insert(0, os.path.dirname(os.path.dirname(os.path.abspath(__file__))))
from translate import statics as S

SRC = r"""
typedef unsigned char Boolean; typedef unsigned short Word; typedef unsigned char Byte;
typedef void (*InstProc)(Word Index);
typedef struct sInstTable *PInstTable;
extern PInstTable InstTable; extern int AdrCnt, InstrZ;
extern void AddInstTable(PInstTable tab, char const* Name, Word Index, InstProc Proc);
extern Boolean LookupInstTable(PInstTable tab, char const* Name);
extern void AddInitPassProc(void (*p)(void));
extern unsigned AddCPU(char const* Name, void (*Switch)(void));
extern void (*MakeCode)(void); extern Boolean (*DecodeAttrPart)(void); extern void (*SwitchFrom)(void);
extern void (*InternSymbol)(char* Asc, int* Erg);
extern int EvalInt(char const* s, Boolean* pOK);
extern int strcmp(char const*, char const*);
extern void ClearStringList(void** l);
extern char OpPart[]; extern char* ArgStr[]; extern int CodeLen; extern Byte BAsmCode[];

static int OpSize;            /* scratch strong: written at the top of MakeCode before the dispatch */
static int AdrMode;           /* scratch strong: written at the top of DecodeAdr */
static int AdrPart;           /* scratch call: written on some paths of DecodeAdr, read after the call */
static int ModeFlag;          /* persistent, reset per pass: set by pseudo-instruction MODE, read by LD */
static int ModeFlag2;         /* persistent, NOT reset: set by MODE2 (through a helper MakeCode always calls), read by LD */
static int PrevInstr;         /* persistent, reset per CPU switch: remembered previous instruction */
static int Pending;           /* persistent, not reset: conditional write in MakeCode, read in a callback */
static int SwitchVal;         /* persistent not reset: written in a switch without default */
static int OutPar;            /* scratch: pure result parameter of an in-file helper, written before read there */
static int Vals[4];           /* scratch strong: every element written by a counting loop with constant bounds */
static int Part[4];           /* persistent: only elements 0..2 written by the loop, element 3 read */
static int BackJump;          /* persistent: written only after a label that a backward goto reaches */
static int* Table;            /* config: allocated in InitFields */
static void* List;            /* persistent, reset per pass through ClearStringList(&List) */
static int HookRead;          /* persistent: written by a callback, read by the InternSymbol hook */
static int Counter;           /* config */
static int ShortCirc;         /* scratch strong: `if (Helper() && ShortCirc)` where Helper always writes it */

static Boolean GetVal(char const* s, int* pResult) { *pResult = 0; if (!*s) return 0; *pResult = *pResult * 10 + *s; return 1; }
static Boolean SetsShort(void) { ShortCirc = 1; return 1; }

static Boolean DecodeAdr(char const* pArg) {
    Boolean OK;
    AdrMode = 0;
    if (pArg[0] == 'R') { AdrPart = pArg[1]; AdrMode = 1; goto chk; }
    if (pArg[0] == '#') { AdrPart = EvalInt(pArg + 1, &OK); if (OK) AdrMode = 2; goto chk; }
    return 0;
chk:
    return AdrMode != 0;
}

static void DecodeLD(Word Index) {
    int z;
    if (DecodeAdr(ArgStr[1])) { BAsmCode[0] = Index + AdrPart + OpSize; CodeLen = 1; }
    if (ModeFlag) CodeLen++;
    if (ModeFlag2) CodeLen++;
    if (PrevInstr == 7) CodeLen++;
    PrevInstr = Index;
    if (Pending) CodeLen++;
    switch (Index) { case 1: SwitchVal = 1; break; case 2: SwitchVal = 2; break; }
    CodeLen += SwitchVal;
    if (GetVal(ArgStr[2], &OutPar)) CodeLen += OutPar;
    for (z = 0; z < 4; z++) Vals[z] = z;
    CodeLen += Vals[3];
    for (z = 0; z < 3; z++) Part[z] = z;
    CodeLen += Part[3];
again:
    CodeLen += BackJump;
    BackJump = 1;
    if (CodeLen < 3) goto again;
    Table[0]++;
    if (SetsShort() && ShortCirc) CodeLen++;
}
static void DecodeMODE(Word Index) { ModeFlag = Index; HookRead = Index; }
static void CodeMode2(void) { if (!strcmp(OpPart, "MODE2")) ModeFlag2 = 1; }
static void DecodeLIST(Word Index) { ClearStringList(&List); (void)Index; }

static void InternSymbol_X(char* Asc, int* Erg) { *Erg = HookRead + *Asc; }

static void MakeCode_X(void) {
    CodeLen = 0;
    OpSize = 1;
    if (!strcmp(OpPart, "PEND")) Pending = 1;
    CodeMode2();
    if (!LookupInstTable(InstTable, OpPart)) CodeLen = -1;
}
static Boolean DecodeAttrPart_X(void) { return 1; }
static void InitCode_X(void) { ModeFlag = 0; ClearStringList(&List); }
static void DeinitFields(void) { Counter = 0; }
static void InitFields(void) {
    Table = (int*)0; Counter = 0;
    AddInstTable(InstTable, "LD", 1, DecodeLD); AddInstTable(InstTable, "MODE", 2, DecodeMODE); AddInstTable(InstTable, "LIST", 3, DecodeLIST);
}
static void SwitchTo_X(void) {
    MakeCode = MakeCode_X; DecodeAttrPart = DecodeAttrPart_X; SwitchFrom = DeinitFields; InternSymbol = InternSymbol_X;
    InitFields();
    PrevInstr = 0;
}
void codex_init(void) { AddCPU("X1", SwitchTo_X); AddInitPassProc(InitCode_X); }
"""

EXPECT = {
    "OpSize": ("scratch", "strong"), "AdrMode": ("scratch", "strong"), "AdrPart": ("scratch", "call"),
    "ModeFlag": ("persistent", True, False), "ModeFlag2": ("persistent", False, False), "PrevInstr": ("persistent", False, True),
    "Pending": ("persistent", False, False), "SwitchVal": ("persistent", False, False), "OutPar": ("scratch", "strong"),
    "Vals": ("scratch", "strong"), "Part": ("persistent", False, False), "BackJump": ("persistent", False, False),
    "Table": ("persistent", False, True), "List": ("persistent", True, False), "HookRead": ("persistent", False, False),
    "Counter": ("config",), "ShortCirc": ("scratch", "strong"),
}


def run():
    """returns the list of wrong answers (empty = the analyser behaves as specified)"""
    with tempfile.TemporaryDirectory() as d:
        p = os.path.join(d, "codex.c")
        open(p, "w").write(SRC)
        r = subprocess.run(["clang-14", "-std=gnu11", "-w", "-fsyntax-only", "-Xclang", "-ast-dump=json", p], stdout=subprocess.PIPE, stderr=subprocess.PIPE)
        if r.returncode != 0:
            return ["clang-14 cannot parse the self-test source: " + r.stderr.decode(errors="replace")[-300:]]
        g = S.analyse_ast(json.loads(r.stdout.decode()), "codex.c", {"AdrCnt", "InstrZ", "InstTable"})
    got = {r["var"]: r for r in g["rows"]}
    bad = []
    for v, e in EXPECT.items():
        r = got.get(v)
        if r is None:
            bad.append("%s: no row" % v)
            continue
        if e[0] == "scratch":
            ok = r["cls"] == "scratch" and r["rule"] == e[1]
        elif e[0] == "config":
            ok = r["cls"] == "config"
        else:
            ok = r["cls"] == "persistent" and bool(r["initPass"]) == e[1] and bool(r["switchTo"]) == e[2]
        if not ok:
            bad.append("%s: expected %s, got cls=%s rule=%s initPass=%s switchTo=%s keys=%s" % (v, e, r["cls"], r["rule"], r["initPass"], r["switchTo"], r["keys"]))
    if sorted(got["ModeFlag"]["setters"]) != ["MODE"]:
        bad.append("ModeFlag: setter instruction not found (%s)" % got["ModeFlag"]["setters"])
    return bad


if __name__ == "__main__":
    b = run()
    print("\n".join(b) if b else "statics self-test: all %d patterns classified as specified" % len(EXPECT))
    sys.exit(1 if b else 0)
