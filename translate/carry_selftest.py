"""Self-test of translate/carry.py: the per-file analyses must give the specified answers on a synthetic core module and a synthetic
code generator (one pattern per rule).  Run by the C18 check on every run; a wrong answer is reported like a broken proof."""
import json
import os
import subprocess
import sys
import tempfile

sys.path.insert(0, os.path.dirname(os.path.dirname(os.path.abspath(__file__))))
from translate import carry as C

CORE = r"""
extern int Shared;                       /* declared only: not this module's */
int Depth, Counter; static char *LastName; static char Buf[8]; static const int Table[2] = {1, 2}; static int Cfg;
struct rec { int a; } Log[3]; static struct rec *pRec;
extern void AddInitPassProc(void (*)(void)); extern char *strcpy(char *, const char *); extern void *memset(void *, int, unsigned long);
void InitThings(void) { Depth = 0; *LastName = '\0'; Counter = Shared = 0; }
static void PassProc(void) { memset(Buf, 0, sizeof(Buf)); }
void mod_init(void) { Cfg = 1; AddInitPassProc(PassProc); }
void Work(int x) { static int Calls; int local; local = x; Calls++; Log[0].a = x; Depth++; Counter += 2; strcpy(Buf, "a"); pRec->a = 1; LastName[0] = 'x'; (void)local; (void)Table; }
"""
EXPECT_CORE = dict(
    vars={"Depth", "Counter", "LastName", "Buf", "Cfg", "Log", "pRec"},          # no `Shared` (extern), no `Table` (const)
    assigned={"InitThings": {"Depth", "LastName", "Counter", "Shared"}, "PassProc": {"Buf"}, "mod_init": {"Cfg"}, "Work": {"Log", "Buf", "pRec", "LastName"}},
    written={"Work": {"Calls", "Log", "Depth", "Counter", "Buf", "pRec", "LastName"}},
    regs={"mod_init": {"PassProc"}}, fstatics={"Work": ["Calls"]})

GEN = r"""
extern int FlagA, FlagB, Every; extern int (*Hook)(void); static int Own; int Mine;
extern unsigned AddCPUWithArgs(char const *, void (*)(void), void const *);
static int h(void) { return 1; }
static void Common(void) { Every = 1; Own = 2; Mine = 3; }
static void SwitchTo_A(void) { Common(); FlagA = 1; }
static void SwitchTo_B(void) { int FlagB; Common(); FlagB = 1; Hook = h; (void)FlagB; }
static void NotASwitch(void) { FlagB = 1; }
void codetest_init(void) { AddCPUWithArgs("A", SwitchTo_A, 0); AddCPUWithArgs("B", SwitchTo_B, 0); }
"""
EXPECT_GEN = {"SwitchTo_A": ["Every", "FlagA"], "SwitchTo_B": ["Every", "Hook"]}    # the local FlagB shadows the global; Own / Mine are the generator's own


def _ast(td, name, src):
    cf = os.path.join(td, name)
    open(cf, "w").write(src)
    r = subprocess.run(["clang-14", "-std=gnu11", "-w", "-fsyntax-only", "-Xclang", "-ast-dump=json", cf], stdout=subprocess.PIPE, stderr=subprocess.PIPE)
    if r.returncode != 0:
        raise RuntimeError("clang-14 cannot parse the synthetic source %s: %s" % (name, r.stderr.decode(errors="replace")[-400:]))
    return json.loads(r.stdout.decode(errors="replace"))


def run():
    wrong = []
    try:
        with tempfile.TemporaryDirectory(prefix="cyself", dir=os.environ.get("VERIF_SCRATCH") or None) as td:
            c = C.analyse_core(_ast(td, "asmtest.c", CORE), "asmtest.c")
            g = C.analyse_gen(_ast(td, "codetest.c", GEN), "codetest.c")
    except Exception as ex:
        return ["carry selftest: " + str(ex)]
    if set(c["vars"]) != EXPECT_CORE["vars"]:
        wrong.append("core variables %s, specified %s" % (sorted(c["vars"]), sorted(EXPECT_CORE["vars"])))
    for key in ("assigned", "written", "regs"):
        for fn, want in EXPECT_CORE[key].items():
            have = set(c["funcs"].get(fn, {}).get(key, []))
            if have != want:
                wrong.append("%s of %s: %s, specified %s" % (key, fn, sorted(have), sorted(want)))
    if c["funcs"].get("Work", {}).get("fstatics") != EXPECT_CORE["fstatics"]["Work"]:
        wrong.append("function statics of Work: %s" % c["funcs"].get("Work", {}).get("fstatics"))
    if g["switch"] != EXPECT_GEN:
        wrong.append("switch functions %s, specified %s" % (g["switch"], EXPECT_GEN))
    return wrong


if __name__ == "__main__":
    w = run()
    print("ok: %d patterns" % (len(EXPECT_CORE["assigned"]) + len(EXPECT_GEN)) if not w else "\n".join(w))
    sys.exit(1 if w else 0)
