"""Target description completeness (C18): does every target-switch function (`SwitchTo_*`) give a value to every core
global that describes the target, on every path?

The core keeps the description of the selected target in file-scope globals of asmdef.c that nothing resets between files or
passes (`Grans[]`, `ListGrans[]`, `SegInits[]`, `SegLimits[]`, `ValidSegs`, `HeaderID`, `NOPCode`, `PCSymbol`, `TurnWords`, ...):
`SetCPUCore` relies on the `SwitchTo_*` function of the new target to overwrite them.  An element the switch function leaves
alone keeps the value the *previous* target - possibly selected by the previous file of the same invocation - gave it, e.g.
`SetNSeg` copies `SegInits[seg]` into the location counter the first time a segment is entered.

Two independent extraction routes, both regenerated from the current sources on every run:

* AST (clang-14 JSON AST of every code*.c): for every function registered as a CPU switch function an abstract
  interpretation over the structured statements (if / switch / loops / calls of functions of the same file / return) with the
  state "set of (valid segments, assigned elements) pairs, one per path class".  A segment row has, per array, the flag
  `assigned on every path on which the segment is valid`.  Syntactic and conservative: an assignment with an index that is not a
  constant, an enumeration constant or a counting-loop variable with constant bounds does not count; a loop body that may run zero
  times does not count; a callee outside the file assigns nothing.
* dynamic (dumper linked against the objects of the current build, like `gen_listparams`): the real assembler processes one
  `cpu <name>` line per entry of the CPU list; after every line the description is printed and then *poisoned*; the run is done
  twice with different poison values.  An element whose printed value differs between the two runs was inherited, not assigned.
  The dump also yields the actual values (the model of `SetNSeg` in Model/TargetDesc.lean is instantiated with them) and the
  switch function of every CPU name (address -> symbol via `nm`).

The two routes must agree in one direction (soundness of the syntactic route): `AST says assigned on every path` implies
`no CPU of that function shows an inherited value`.  gen_targetdesc raises ExtractError otherwise.
"""
import concurrent.futures
import hashlib
import json
import os
import re
import subprocess
import sys

sys.path.insert(0, os.path.dirname(os.path.dirname(os.path.abspath(__file__))))
from vlib import common
from translate import globals as G

ANALYZER_VERSION = "8"

ARRAYS = ("Grans", "ListGrans", "SegInits", "SegLimits")
# scalars of the target description that SetCPUCore does not reset itself (asmallg.c) and that every switch function is expected to set
SCALARS = ("ValidSegs", "HeaderID", "NOPCode", "PCSymbol", "DivideChars", "HasAttrs", "TurnWords", "MakeCode", "IsDef", "SwitchFrom")
SEG_NAMES = ["NOTHING", "CODE", "DATA", "IDATA", "XDATA", "YDATA", "BITDATA", "IO", "REG", "ROMDATA", "EEDATA"]
MAX_STATES = 4096


class ExtractError(Exception):
    pass


_unwrap = G._unwrap
_walk = G._walk


def _enum_values(ast):
    """name -> value of every enumeration constant of the translation unit"""
    vals = {}
    for d in ast.get("inner", []):
        stack = [d]
        while stack:
            n = stack.pop()
            if n.get("kind") == "EnumDecl":
                cur = -1
                for c in n.get("inner", []) or []:
                    if c.get("kind") != "EnumConstantDecl":
                        continue
                    v = None
                    for x in _walk(c):
                        if x.get("kind") == "ConstantExpr" and "value" in x:
                            try:
                                v = int(x["value"])
                            except ValueError:
                                v = None
                            break
                    if v is None:
                        ini = [x for x in c.get("inner", []) or [] if isinstance(x, dict)]
                        v = _cval(ini[0], vals, {}) if ini else None
                    cur = cur + 1 if v is None else v
                    vals[c["name"]] = cur
            elif n.get("kind") in ("TypedefDecl", "RecordDecl"):
                stack += [c for c in n.get("inner", []) or [] if isinstance(c, dict)]
    return vals


def _cval(n, enums, env):
    """constant value of an index expression (integer literal, enumeration constant, simple arithmetic), or None"""
    n = _unwrap(n)
    k = n.get("kind")
    if k == "IntegerLiteral":
        return int(n["value"])
    if k == "DeclRefExpr":
        rd = n.get("referencedDecl", {})
        if rd.get("kind") == "EnumConstantDecl":
            return enums.get(rd.get("name"))
        return None
    if k == "BinaryOperator":
        a, b = _cval(n["inner"][0], enums, env), _cval(n["inner"][1], enums, env)
        if a is None or b is None:
            return None
        try:
            return {"+": a + b, "-": a - b, "*": a * b, "<<": a << b, "|": a | b, "&": a & b}[n.get("opcode")]
        except KeyError:
            return None
    return None


def _loop_range(f, enums):
    """`for (v = c0; v < c1; v++)` with constant / enumeration-constant bounds => (v, c0, c1 exclusive)"""
    inner = f.get("inner", [])
    if len(inner) != 5:
        return None
    init, _cv, cond, inc, _body = inner
    if not (isinstance(init, dict) and isinstance(cond, dict) and isinstance(inc, dict)):
        return None
    init, cond, inc = _unwrap(init), _unwrap(cond), _unwrap(inc)
    if not (init.get("kind") == "BinaryOperator" and init.get("opcode") == "="):
        return None
    v = _unwrap(init["inner"][0])
    lo = _cval(init["inner"][1], enums, {})
    if v.get("kind") != "DeclRefExpr" or lo is None:
        return None
    name = v["referencedDecl"]["name"]
    if not (cond.get("kind") == "BinaryOperator" and cond.get("opcode") in ("<", "<=")):
        return None
    cv = _unwrap(cond["inner"][0])
    hi = _cval(cond["inner"][1], enums, {})
    if cv.get("kind") != "DeclRefExpr" or cv["referencedDecl"]["name"] != name or hi is None:
        return None
    if cond["opcode"] == "<=":
        hi += 1
    ok = False
    if inc.get("kind") == "UnaryOperator" and inc.get("opcode") == "++":
        iv = _unwrap(inc["inner"][0])
        ok = iv.get("kind") == "DeclRefExpr" and iv["referencedDecl"]["name"] == name
    elif inc.get("kind") == "CompoundAssignOperator" and inc.get("opcode") == "+=":
        iv = _unwrap(inc["inner"][0])
        ok = iv.get("kind") == "DeclRefExpr" and iv["referencedDecl"]["name"] == name and _cval(inc["inner"][1], enums, {}) == 1
    if not ok or not (0 <= hi - lo <= 64):
        return None
    return name, lo, hi


class Interp:
    """abstract interpretation of one switch function.  A state is (valid, assigned): `valid` = frozenset of segment numbers named
    by the assignments to ValidSegs on this path (None: ValidSegs not assigned yet), `assigned` = frozenset of keys `Arr[n]` / scalar
    names.  A set of states stands for the set of paths."""

    def __init__(self, funcs, enums, params=None):
        self.funcs = funcs
        self.enums = enums
        self.params = params or {}
        self.depth = 0
        self.finished = set()
        self.overflow = False

    # ---- expressions: effects in evaluation order; parts that may be skipped (`?:` arms, right side of && / ||) fork the state
    def expr(self, n, S, env):
        if not isinstance(n, dict):
            return S
        k = n.get("kind")
        if k in ("BinaryOperator", "CompoundAssignOperator") and n.get("opcode", "") in ("=", "|=", "+=", "&=", "-=", "^=", "<<=", ">>=", "*=", "/=", "%="):
            S = self.expr(n["inner"][1], S, env)
            lhs = _unwrap(n["inner"][0])
            # index / base expressions of the left side may contain calls
            for c in lhs.get("inner", []) or []:
                S = self.expr(c, S, env)
            return self.assign(lhs, n, S, env)
        if k == "BinaryOperator" and n.get("opcode") in ("&&", "||"):
            S = self.expr(n["inner"][0], S, env)
            return S | self.expr(n["inner"][1], S, env)
        if k == "ConditionalOperator":
            S = self.expr(n["inner"][0], S, env)
            return self.expr(n["inner"][1], S, env) | self.expr(n["inner"][2], S, env)
        if k == "CallExpr":
            for a in n["inner"][1:]:
                S = self.expr(a, S, env)
            cn = G._callee(n)
            if cn in self.funcs and self.depth < 6:
                self.depth += 1
                saved = self.finished
                self.finished = set()
                # a parameter that receives a constant (`SetSeg(SegData, 1, 0, 0xff)`) is a known index inside the callee
                cenv = {}
                for pn, a in zip(self.params.get(cn, []), n["inner"][1:]):
                    c = _cval(a, self.enums, env)
                    if c is None:
                        ia = _unwrap(a)
                        if ia.get("kind") == "DeclRefExpr" and ia["referencedDecl"]["name"] in env:
                            cenv[pn] = env[ia["referencedDecl"]["name"]]
                    elif pn and not G._assigns_var(self.funcs[cn], pn):
                        cenv[pn] = (c, c + 1)
                out = self.stmt(self.funcs[cn], S, cenv)
                out |= self.finished            # a `return` inside the callee ends the callee only
                self.finished = saved
                self.depth -= 1
                return out
            if cn in ("memset", "memcpy") and len(n["inner"]) > 1:
                a = _unwrap(n["inner"][1])
                if a.get("kind") == "DeclRefExpr" and a["referencedDecl"]["name"] in ("Grans", "ListGrans"):
                    nm = a["referencedDecl"]["name"]
                    return self.add(S, ["%s[%d]" % (nm, i) for i in range(len(SEG_NAMES) + 1)])
            return S
        for c in n.get("inner", []) or []:
            S = self.expr(c, S, env)
        return S

    def add(self, S, keys):
        ks = frozenset(keys)
        return {(v, a | ks) for v, a in S}

    def segs_of(self, rhs, env):
        out = set()
        for x in _walk(rhs):
            if x.get("kind") != "DeclRefExpr":
                continue
            if x.get("referencedDecl", {}).get("kind") == "EnumConstantDecl":
                nm = x["referencedDecl"]["name"]
                if nm.startswith("Seg") and nm in self.enums and 0 < self.enums[nm] < len(SEG_NAMES):
                    out.add(self.enums[nm])
            elif x.get("referencedDecl", {}).get("name") in env:
                # a parameter / loop variable with known values (`ValidSegs |= 1 << Seg` in a helper called with constants)
                lo, hi = env[x["referencedDecl"]["name"]]
                out |= {v for v in range(lo, hi) if 0 < v < len(SEG_NAMES)}
        return frozenset(out)

    def assign(self, lhs, node, S, env):
        k = lhs.get("kind")
        if k == "DeclRefExpr":
            nm = lhs["referencedDecl"]["name"]
            if nm == "ValidSegs":
                segs = self.segs_of(node["inner"][1], env)
                if node.get("opcode") == "=":
                    # `ValidSegs = <expr without segment names>` (a table field, a parameter ...): every segment may be valid
                    unknown = not segs and _cval(node["inner"][1], self.enums, env) is None
                    new = frozenset(range(1, len(SEG_NAMES))) if unknown else segs
                    return {(new, a | {"ValidSegs"} | ({"ValidSegs?"} if unknown else frozenset())) for v, a in S}
                if node.get("opcode") in ("|=", "+="):
                    if not segs and _cval(node["inner"][1], self.enums, env) is None:
                        # `ValidSegs |= <expression without segment names>`: any segment may have become valid
                        return {(frozenset(range(1, len(SEG_NAMES))), a | {"ValidSegs?"}) for v, a in S}
                    return {((v or frozenset()) | segs, a) for v, a in S}
                return S        # &=, -=: the larger set is kept (more obligations)
            if nm in SCALARS or nm == "ChkPC":
                return self.add(S, [nm]) if node.get("opcode") == "=" else S
            return S
        if k == "ArraySubscriptExpr" and node.get("opcode") == "=":
            base = _unwrap(lhs["inner"][0])
            if base.get("kind") == "DeclRefExpr" and base["referencedDecl"]["name"] in ARRAYS:
                arr = base["referencedDecl"]["name"]
                idx = _unwrap(lhs["inner"][1])
                c = _cval(idx, self.enums, env)
                if c is not None:
                    return self.add(S, ["%s[%d]" % (arr, c)])
                if idx.get("kind") == "DeclRefExpr" and idx["referencedDecl"]["name"] in env:
                    lo, hi = env[idx["referencedDecl"]["name"]]
                    return self.add(S, ["%s[%d]" % (arr, i) for i in range(lo, hi)])
        return S

    # ---- statements
    def stmt(self, n, S, env):
        if not isinstance(n, dict) or not S:
            return S
        if len(S) > MAX_STATES:
            self.overflow = True
            return S
        k = n.get("kind")
        if k == "CompoundStmt":
            for c in n.get("inner", []) or []:
                S = self.stmt(c, S, env)
            return S
        if k == "IfStmt":
            inner = n.get("inner", [])
            S = self.expr(inner[0], S, env)
            T = self.stmt(inner[1], set(S), env) if len(inner) > 1 else set(S)
            E = self.stmt(inner[2], set(S), env) if len(inner) > 2 else set(S)
            return T | E
        if k == "SwitchStmt":
            inner = n.get("inner", [])
            S = self.expr(inner[0], S, env)
            body = inner[-1] if inner else None
            return self.switch(body, S, env)
        if k == "ForStmt":
            inner = n.get("inner", [])
            r = _loop_range(n, self.enums)
            if len(inner) == 5:
                S = self.expr(inner[0], S, env) if isinstance(inner[0], dict) else S
                body = inner[4]
                if r and r[2] > r[1] and isinstance(body, dict) and not G._assigns_var(body, r[0]):
                    e2 = dict(env)
                    e2[r[0]] = (r[1], r[2])
                    return self.stmt(body, S, e2)
                return S | self.stmt(body, set(S), env)
            return S
        if k == "WhileStmt":
            inner = n.get("inner", [])
            S = self.expr(inner[0], S, env)
            return S | self.stmt(inner[-1], set(S), env)
        if k == "DoStmt":
            inner = n.get("inner", [])
            S = self.stmt(inner[0], S, env)
            return self.expr(inner[1], S, env) if len(inner) > 1 else S
        if k == "ReturnStmt":
            for c in n.get("inner", []) or []:
                S = self.expr(c, S, env)
            self.finished |= S
            return set()
        if k in ("BreakStmt", "ContinueStmt", "GotoStmt"):
            return S          # handled (break) by `switch`; inside loops the over-approximation S | body(S) already contains S
        if k in ("CaseStmt", "DefaultStmt", "LabelStmt"):
            sub = n.get("inner", [])
            return self.stmt(sub[-1], S, env) if sub else S
        if k == "DeclStmt":
            for d in n.get("inner", []) or []:
                for c in d.get("inner", []) or []:
                    S = self.expr(c, S, env)
            return S
        return self.expr(n, S, env)

    def switch(self, body, S, env):
        """union over the entry points (every case label; the bottom of the switch if there is no default)"""
        if not isinstance(body, dict) or body.get("kind") != "CompoundStmt":
            return S | self.stmt(body, set(S), env)
        items = body.get("inner", []) or []
        flat = []           # (is_label, is_default, stmt)
        for it in items:
            cur = it
            lab = False
            dflt = False
            while isinstance(cur, dict) and cur.get("kind") in ("CaseStmt", "DefaultStmt"):
                lab = True
                dflt = dflt or cur.get("kind") == "DefaultStmt"
                cur = cur["inner"][-1]
            flat.append((lab, dflt, cur))
        out = set()
        has_default = any(d for _l, d, _s in flat)
        for i, (lab, _d, _s) in enumerate(flat):
            if not lab:
                continue
            T = set(S)
            for _l2, _d2, st in flat[i:]:
                if isinstance(st, dict) and st.get("kind") == "BreakStmt":
                    break
                if self._has_top_break(st):
                    # a break nested in an if: both continue and leave - keep both
                    out |= T
                T = self.stmt(st, T, env)
                if not T:
                    break
            out |= T
        if not has_default:
            out |= S
        return out

    @staticmethod
    def _has_top_break(st):
        def rec(n):
            if not isinstance(n, dict):
                return False
            if n.get("kind") == "BreakStmt":
                return True
            if n.get("kind") in ("ForStmt", "WhileStmt", "DoStmt", "SwitchStmt"):
                return False
            return any(rec(c) for c in n.get("inner", []) or [])
        return isinstance(st, dict) and st.get("kind") != "BreakStmt" and rec(st)


def analyse_ast(ast, fname):
    funcs, params = {}, {}
    for d in ast.get("inner", []):
        if d.get("kind") == "FunctionDecl":
            body = [c for c in d.get("inner", []) if c.get("kind") == "CompoundStmt"]
            if body:
                funcs[d["name"]] = body[0]
                params[d["name"]] = [c.get("name") for c in d.get("inner", []) if c.get("kind") == "ParmVarDecl"]
    enums = _enum_values(ast)
    # switch functions: second argument of AddCPUWithArgs / AddCPUUserWithArgs (AddCPU / AddCPUUser are macros)
    switch_funcs = {}
    for fn, body in funcs.items():
        for n in _walk(body):
            if n.get("kind") == "CallExpr" and G._callee(n) in ("AddCPUWithArgs", "AddCPUUserWithArgs") and len(n["inner"]) >= 3:
                a = _unwrap(n["inner"][2])
                if a.get("kind") == "DeclRefExpr":
                    nm = G._strlit(n["inner"][1])
                    switch_funcs.setdefault(a["referencedDecl"]["name"], [])
                    if nm:
                        switch_funcs[a["referencedDecl"]["name"]].append(nm)
                else:
                    raise ExtractError("%s: AddCPU* with a switch function that is not a plain name (in %s)" % (fname, fn))
    # does the file read SegLimits itself (anywhere but as the target of a plain assignment)?
    reads_limits = False
    for fn, body in funcs.items():
        lhs_ids = set()
        for n in _walk(body):
            if n.get("kind") == "BinaryOperator" and n.get("opcode") == "=":
                l = _unwrap(n["inner"][0])
                if l.get("kind") == "ArraySubscriptExpr":
                    b = _unwrap(l["inner"][0])
                    if b.get("kind") == "DeclRefExpr" and b["referencedDecl"]["name"] == "SegLimits":
                        lhs_ids.add(id(b))
        for n in _walk(body):
            if n.get("kind") == "DeclRefExpr" and n.get("referencedDecl", {}).get("name") == "SegLimits" and id(n) not in lhs_ids:
                reads_limits = True
    out = dict(file=fname, funcs=[], readsLimits=reads_limits)
    if switch_funcs and (enums.get("SegCode") != 1 or "SegCount" not in enums):
        raise ExtractError("%s: enumeration of the address spaces not found" % fname)
    for sf in sorted(switch_funcs):
        if sf not in funcs:
            raise ExtractError("%s: switch function %s is not defined in the file" % (fname, sf))
        it = Interp(funcs, enums, params)
        S = it.stmt(funcs[sf], {(None, frozenset())}, {})
        S |= it.finished
        if it.overflow or not S:
            raise ExtractError("%s: %s: path classes exceed %d" % (fname, sf, MAX_STATES))
        segs = sorted(set(s for v, _a in S if v for s in v))
        rows = []
        for s in segs:
            fl = {}
            for arr in ARRAYS:
                fl[arr] = all(("%s[%d]" % (arr, s)) in a for v, a in S if v and s in v)
            rows.append(dict(seg=s, **fl))
        scal = {nm: all(nm in a for _v, a in S) for nm in SCALARS}
        out["funcs"].append(dict(func=sf, literalNames=sorted(set(switch_funcs[sf])), segs=rows, scalars=scal,
                                 validUnknown=any("ValidSegs?" in a for _v, a in S), validMissing=any(v is None for v, _a in S), ownChkPC=all("ChkPC" in a for _v, a in S),
                                 pathClasses=len(S)))
    return out


def _analyse_file(job):
    bdir, path = job
    try:
        sys.setrecursionlimit(20000)
        return analyse_ast(json.loads(G._clang_json(bdir, path)), os.path.basename(path))
    except (ExtractError, G.ExtractError) as ex:
        return dict(error=str(ex), file=os.path.basename(path))
    except RecursionError:
        return dict(error="recursion limit while walking %s" % path, file=os.path.basename(path))


def ast_inventory(bdir, workers=4):
    """per code*.c the switch functions with their segment rows; cached per file by content hash"""
    cdir = os.path.join(common.SCRATCH_ROOT, "targetdesc-cache")
    os.makedirs(cdir, exist_ok=True)
    h = hashlib.sha256()
    h.update((G._headers_hash(bdir) + "|" + ANALYZER_VERSION).encode())
    with open(os.path.abspath(__file__), "rb") as fh:
        h.update(hashlib.sha256(fh.read()).digest())
    hh = h.hexdigest()[:16]
    files = sorted(f for f in os.listdir(common.REPO) if re.match(r"^code.*\.c$", f))
    if len(files) < 50:
        raise ExtractError("only %d code*.c files found" % len(files))
    out, jobs = {}, []
    for f in files:
        p = os.path.join(common.REPO, f)
        with open(p, "rb") as fh:
            key = hashlib.sha256(fh.read()).hexdigest()[:16]
        cp = os.path.join(cdir, "%s-%s-%s.json" % (f, key, hh))
        if os.path.exists(cp):
            try:
                out[f] = json.load(open(cp))
                continue
            except Exception:
                pass
        jobs.append((f, p, cp))
    if jobs:
        with concurrent.futures.ProcessPoolExecutor(max_workers=workers) as ex:
            for (f, p, cp), g in zip(jobs, ex.map(_analyse_file, [(bdir, p) for (_f, p, _c) in jobs])):
                if "error" in g:
                    raise ExtractError(g["error"])
                tmp = cp + ".tmp%d" % os.getpid()
                with open(tmp, "w") as fh:
                    json.dump(g, fh)
                os.replace(tmp, cp)
                out[f] = g
        for f, p, cp in jobs:
            for n in os.listdir(cdir):
                if n.startswith(f + "-") and os.path.join(cdir, n) != cp:
                    try:
                        os.unlink(os.path.join(cdir, n))
                    except OSError:
                        pass
    return [out[f] for f in files]


# --------------------------------------------------------------------------------------------
# dynamic route

DUMPER = r"""
#include "stdinc.h"
#include <stdio.h>
#include <string.h>
#include <stdlib.h>
#include "datatypes.h"
#include "addrspace.h"
#include "cpulist.h"
#include "asmdef.h"
#include "asmsub.h"
extern int asl_main_renamed(int argc, char **argv);
extern void __real_asmlist_init(void);
extern void __real_MakeList(char const *p);
static FILE *probe;
static unsigned poison;
static char first[64];
static void iter(tCPUDef const *p, void *u) { (void)u; fprintf(probe, "\tcpu %s\n", p->Name); if (!first[0]) strncpy(first, p->Name, 63); }
void __wrap_asmlist_init(void) {
  probe = fopen("td_probe.asm", "w");
  IterateCPUList(iter, NULL);
  /* the first entry once more: nothing was poisoned before its first line */
  fprintf(probe, "\tcpu %s\n", first);
  fclose(probe);
  __real_asmlist_init();
}
static char const *pcsym_poison = "?poison?";
void __wrap_MakeList(char const *p) {
  int s;
  if (PassNo == 1 && !strncmp(p, "\tcpu ", 5)) {
    tCPUDef const *d = LookupCPUDefByName(MomCPUIdent);
    unsigned long inner = 0;
    if (d && d->pUserData) memcpy(&inner, d->pUserData, sizeof(inner) < sizeof(void*) ? sizeof(inner) : sizeof(void*));
    printf("cpu %s proc %lx:%lx valid %lx hdr %u nop %lx turn %d pcsym %s chk %lx", MomCPUIdent, d ? (unsigned long)d->SwitchProc : 0ul, inner,
           (unsigned long)ValidSegs, (unsigned)HeaderID, (unsigned long)NOPCode, (int)TurnWords, PCSymbol ? PCSymbol : "(null)", (unsigned long)ChkPC);
    for (s = 1; s < SegCount; s++)
      printf(" %d:%u:%u:%llx:%llx", s, (unsigned)Grans[s], (unsigned)ListGrans[s], (unsigned long long)SegInits[s], (unsigned long long)SegLimits[s]);
    printf("\n");
    /* poison what the next switch function is expected to overwrite (CODE granularity stays usable for the line in between) */
    for (s = 1; s < SegCount; s++) {
      Grans[s] = ListGrans[s] = (Word)(0x10 + (poison & 0xf));
      SegInits[s] = 0x5a5a0000ull + poison;
      SegLimits[s] = 0x7a7a0000ull + poison;
    }
    HeaderID = (Byte)(0xe0 + (poison & 0xf));
    NOPCode = 0x6b6b0000 + poison;
    TurnWords = (poison & 1) ? 2 : 3;
    PCSymbol = (poison & 1) ? "?poisonA?" : "?poisonB?";
    ValidSegs = (poison & 1) ? 0x7fe : 0x7fc | 2;
  }
  __real_MakeList(p);
}
int main(int argc, char **argv) {
  char *av[] = {"asl", "-q", "td_probe.asm", "-o", "td_probe.p", NULL};
  poison = argc > 1 ? (unsigned)atoi(argv[1]) : 1;
  return asl_main_renamed(5, av);
}
"""


def dyn_dump(bdir):
    """[{name, func, valid, hdr, nop, turn, pcsym, segs: {seg: (gran, lgran, init, limit)}, inherited: [keys]}] for every CPU name"""
    from translate import tables as T
    with common.Workdir("dumptd") as wd:
        aso = os.path.join(bdir, "CMakeFiles", "AS_OBJECTS.dir", "as.c.o")
        if not os.path.exists(aso):
            raise ExtractError("as.c.o not found in the current build")
        nomain = os.path.join(wd, "as_nomain.o")
        r = subprocess.run(["objcopy", "--redefine-sym", "main=asl_main_renamed", aso, nomain], stdout=subprocess.PIPE, stderr=subprocess.PIPE)
        if r.returncode != 0:
            raise ExtractError("objcopy failed: " + r.stderr.decode(errors="replace"))
        cf = os.path.join(wd, "td.c")
        open(cf, "w").write(DUMPER)
        exe = os.path.join(wd, "td")
        cmd = ["gcc", "-w", "-std=gnu11", "-no-pie", "-D" + common.GUARD, "-I", common.REPO, "-I", bdir, cf, nomain] + T.objs(bdir, T.AS_GROUPS, exclude=("as.c.o",)) + \
              ["-lm", "-Wl,--wrap=asmlist_init", "-Wl,--wrap=MakeList", "-o", exe]
        r = subprocess.run(cmd, stdout=subprocess.PIPE, stderr=subprocess.PIPE)
        if r.returncode != 0:
            raise ExtractError("TargetDesc dumper does not compile/link against the current tree:\n%s" % r.stderr.decode(errors="replace")[-3000:])
        nm = subprocess.run(["nm", exe], stdout=subprocess.PIPE, stderr=subprocess.PIPE)
        sym = {}
        for line in nm.stdout.decode(errors="replace").split("\n"):
            f = line.split()
            if len(f) == 3 and f[1] in ("t", "T"):
                sym.setdefault(int(f[0], 16), []).append(f[2])
        runs = []
        for p in ("1", "2"):
            r = subprocess.run([exe, p], stdout=subprocess.PIPE, stderr=subprocess.PIPE, timeout=120, env=dict(os.environ, AS_MSGPATH=bdir), cwd=wd)
            if r.returncode != 0:
                raise ExtractError("TargetDesc dumper failed: rc=%s %s" % (r.returncode, (r.stdout + r.stderr).decode(errors="replace")[-2000:]))
            rows = []
            for line in r.stdout.decode(errors="replace").split("\n"):
                f = line.split()
                if len(f) < 16 or f[0] != "cpu" or f[2] != "proc" or f[14] != "chk":
                    continue
                segs = {}
                for t in f[16:]:
                    a = t.split(":")
                    segs[int(a[0])] = (int(a[1]), int(a[2]), int(a[3], 16), int(a[4], 16))
                rows.append(dict(name=f[1], proc=int(f[3].split(":")[0], 16), inner=int(f[3].split(":")[1], 16), valid=int(f[5], 16), hdr=int(f[7]), nop=int(f[9], 16), turn=int(f[11]), pcsym=f[13], chk=int(f[15], 16), segs=segs))
            runs.append(rows)
        try:
            ncpu = sum(1 for l in open(os.path.join(wd, "td_probe.asm")) if l.startswith("\tcpu "))
        except OSError:
            raise ExtractError("TargetDesc dumper wrote no probe source")
    a, b = runs
    if not a or len(a) != ncpu or [r["name"] for r in a] != [r["name"] for r in b] or a[0]["name"] != a[-1]["name"]:
        raise ExtractError("TargetDesc: %d CPU lines, %d / %d description lines" % (ncpu, len(a), len(b)))
    # the first CPU was processed a second time at the end (after a poisoning): that line replaces the first one
    a = [a[-1]] + a[1:-1]
    b = [b[-1]] + b[1:-1]
    out = []
    for ra, rb in zip(a, b):
        fns = sym.get(ra["proc"], [])
        if fns == ["SwitchNoUserProc"]:
            fns = sym.get(ra["inner"], [])     # AddCPU without user data: cpulist.c wraps the switch function (tNoUserData)
        if len(fns) != 1:
            raise ExtractError("TargetDesc: switch function of CPU %s cannot be named (%s)" % (ra["name"], fns))
        inh = []
        for k in ("valid", "hdr", "nop", "turn", "pcsym"):
            if ra[k] != rb[k]:
                inh.append({"valid": "ValidSegs", "hdr": "HeaderID", "nop": "NOPCode", "turn": "TurnWords", "pcsym": "PCSymbol"}[k])
        valid = ra["valid"] if ra["valid"] == rb["valid"] else 0
        for s in sorted(ra["segs"]):
            for i, arr in enumerate(ARRAYS):
                if ra["segs"][s][i] != rb["segs"][s][i]:
                    inh.append("%s[%d]" % (arr, s))
        chk = sym.get(ra["chk"], [])
        if len(chk) != 1:
            raise ExtractError("TargetDesc: ChkPC function of CPU %s cannot be named (%s)" % (ra["name"], chk))
        out.append(dict(name=ra["name"], func=fns[0], chkpc=chk[0], ownChk=chk[0] != "DefChkPC", valid=valid, hdr=ra["hdr"], nop=ra["nop"], turn=ra["turn"], pcsym=ra["pcsym"],
                        segs={s: ra["segs"][s] for s in ra["segs"]}, inherited=inh))
    return out


# --------------------------------------------------------------------------------------------

_JOINED = {}


def joined(bdir):
    """memoised per build directory (gen_targetdesc and the check use the same dump)"""
    if bdir not in _JOINED:
        _JOINED[bdir] = _joined(bdir)
    return _JOINED[bdir]


def _joined(bdir):
    """(rows, cpus): rows = one per (file, switch function, segment that may be valid) with AST and dynamic flags;
    cpus = the dynamic dump with the owning file"""
    inv = ast_inventory(bdir)
    dyn = dyn_dump(bdir)
    by_func = {}
    reads = {g["file"]: g.get("readsLimits", False) for g in inv}
    for g in inv:
        for f in g["funcs"]:
            if f["func"] in by_func:
                raise ExtractError("switch function name %s is defined in %s and %s" % (f["func"], by_func[f["func"]][0], g["file"]))
            by_func[f["func"]] = (g["file"], f)
    cpus_of = {}
    for c in dyn:
        if c["func"] not in by_func:
            raise ExtractError("CPU %s is switched by %s, which the AST route did not find as a switch function" % (c["name"], c["func"]))
        c["file"] = by_func[c["func"]][0]
        cpus_of.setdefault(c["func"], []).append(c)
    rows, problems = [], []
    for fn in sorted(by_func, key=lambda x: (by_func[x][0], x)):
        file, f = by_func[fn]
        cs = cpus_of.get(fn, [])
        dynvalid = set(s for c in cs for s in range(1, len(SEG_NAMES)) if (c["valid"] >> s) & 1)
        astsegs = {r["seg"]: r for r in f["segs"]}
        if not f["validUnknown"] and not dynvalid <= set(astsegs):
            problems.append("%s:%s: segments %s are valid at run time but the AST route did not see them in a ValidSegs assignment" % (file, fn, sorted(dynvalid - set(astsegs))))
        for s in sorted(set(astsegs) | dynvalid):
            r = astsegs.get(s, dict(seg=s, **{a: False for a in ARRAYS}))
            if f["validUnknown"] and s not in dynvalid:
                continue          # ValidSegs comes from a table: only the segments some CPU of the function really has
            d = {}
            for arr in ARRAYS:
                key = "%s[%d]" % (arr, s)
                users = [c for c in cs if (c["valid"] >> s) & 1]
                d[arr] = bool(users) and not any(key in c["inherited"] for c in users)
                if r[arr] and users and not d[arr]:
                    problems.append("%s:%s: the AST route says %s is assigned on every path, but CPU %s inherits it" % (file, fn, key, [c["name"] for c in users if key in c["inherited"]][:3]))
            rows.append(dict(file=file, func=fn, seg=s, ast={a: r[a] for a in ARRAYS}, dyn=d, cpus=len([c for c in cs if (c["valid"] >> s) & 1]),
                             ownChkPC=bool(f.get("ownChkPC")), readsLimits=bool(reads.get(file))))
        sc_dyn = {}
        for nm in ("ValidSegs", "HeaderID", "NOPCode", "TurnWords", "PCSymbol"):
            sc_dyn[nm] = bool(cs) and not any(nm in c["inherited"] for c in cs)
            if f["scalars"].get(nm) and cs and not sc_dyn[nm]:
                problems.append("%s:%s: the AST route says %s is assigned on every path, but a CPU inherits it" % (file, fn, nm))
        f["scalarsDyn"] = sc_dyn
    if problems:
        raise ExtractError("TargetDesc: the syntactic and the dynamic route disagree (analyser unsound?): " + "; ".join(problems[:6]))
    return rows, dyn, by_func


def _ls(x):
    return '"' + str(x).replace("\\", "\\\\").replace('"', '\\"') + '"'


def _lb(b):
    return "true" if b else "false"


def gen_targetdesc(bdir, write_if_changed, hdr):
    rows, dyn, by_func = joined(bdir)
    if len(rows) < 100 or len(by_func) < 50 or len(dyn) < 300:
        raise ExtractError("target description inventory looks empty (%d rows, %d switch functions, %d CPUs)" % (len(rows), len(by_func), len(dyn)))
    L = [hdr, "namespace AslModel.Generated.TargetDesc\n",
         "/-- one (switch function, segment that may be in ValidSegs) pair (translate/targetdesc.py).\n"
         "    `grans` .. `segLimits`: clang AST, the element is assigned on every path of the switch function on which the segment is valid;\n"
         "    `dGrans` .. `dSegLimits`: dynamic route, no CPU name switched by the function inherits the element (poisoned twice with different values);\n"
         "    `ownChkPC`: the switch function installs its own ChkPC on every path; `readsLimits`: the file reads SegLimits itself;\n"
         "    `cpus`: CPU names of the function for which the segment is valid at run time -/",
         "structure SegRow where\n  file : String\n  func : String\n  seg : Nat\n  grans : Bool\n  listGrans : Bool\n  segInits : Bool\n  segLimits : Bool\n"
         "  dGrans : Bool\n  dListGrans : Bool\n  dSegInits : Bool\n  dSegLimits : Bool\n  ownChkPC : Bool\n  readsLimits : Bool\n  cpus : Nat\nderiving Repr, DecidableEq, Inhabited\n",
         "def segRows : List SegRow := ["]
    L.append(",\n".join("  ⟨%s, %s, %d, %s, %s, %s, %s, %s, %s, %s, %s, %s, %s, %d⟩" % (
        _ls(r["file"]), _ls(r["func"]), r["seg"], _lb(r["ast"]["Grans"]), _lb(r["ast"]["ListGrans"]), _lb(r["ast"]["SegInits"]), _lb(r["ast"]["SegLimits"]),
        _lb(r["dyn"]["Grans"]), _lb(r["dyn"]["ListGrans"]), _lb(r["dyn"]["SegInits"]), _lb(r["dyn"]["SegLimits"]), _lb(r["ownChkPC"]), _lb(r["readsLimits"]), r["cpus"]) for r in rows))
    L.append("]\n")
    L.append("/-- one switch function: the scalars of the target description SetCPUCore does not reset itself, assigned on every path (AST)?\n"
             "    order: " + ", ".join(SCALARS) + "; `dynOk`: no CPU of the function inherits ValidSegs / HeaderID / NOPCode / TurnWords / PCSymbol at run time -/")
    L.append("structure FuncRow where\n  file : String\n  func : String\n  scalars : List Bool\n  validKnown : Bool\n  dynOk : Bool\n  cpus : Nat\nderiving Repr, DecidableEq, Inhabited\n")
    L.append("def scalarNames : List String := [" + ", ".join(_ls(x) for x in SCALARS) + "]\n")
    L.append("def funcRows : List FuncRow := [")
    cnt = {}
    for c in dyn:
        cnt[c["func"]] = cnt.get(c["func"], 0) + 1
    fr = []
    for fn in sorted(by_func, key=lambda x: (by_func[x][0], x)):
        file, f = by_func[fn]
        fr.append("  ⟨%s, %s, [%s], %s, %s, %d⟩" % (_ls(file), _ls(fn), ", ".join(_lb(f["scalars"][x]) for x in SCALARS), _lb(not f["validMissing"]),
                                                   _lb(all(f["scalarsDyn"].values())), cnt.get(fn, 0)))
    L.append(",\n".join(fr))
    L.append("]\n")
    L.append("end AslModel.Generated.TargetDesc\n")
    return write_if_changed("TargetDesc.lean", "\n".join(L))


if __name__ == "__main__":
    import time
    bd = common.repo_build("hooks")
    t0 = time.time()
    if len(sys.argv) > 1 and sys.argv[1].endswith(".c"):
        print(json.dumps(_analyse_file((bd, os.path.join(common.REPO, sys.argv[1]))), indent=1))
        sys.exit(0)
    rows, dyn, by_func = joined(bd)
    for r in rows:
        bad = [a for a in ARRAYS if not r["ast"][a]]
        dbad = [a for a in ARRAYS if not r["dyn"][a]]
        if bad or dbad:
            print("%-14s %-22s %-8s ast-missing=%s dyn-missing=%s cpus=%d" % (r["file"], r["func"], SEG_NAMES[r["seg"]], bad, dbad, r["cpus"]))
    for fn, (file, f) in sorted(by_func.items()):
        sb = [k for k, v in f["scalars"].items() if not v]
        if sb or f["validUnknown"] or f["validMissing"]:
            print("%-14s %-22s scalars not on every path: %s dyn=%s unknownValid=%s validMissing=%s" % (file, fn, sb, [k for k, v in f["scalarsDyn"].items() if not v], f["validUnknown"], f["validMissing"]))
    print(len(rows), "rows", len(dyn), "cpus", len(by_func), "switch functions", "%.1fs" % (time.time() - t0))
