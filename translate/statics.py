"""Inventory of the persistent statics of the code generators (C18, widening of translate/globals.py).

For every /repo/code*.c the clang-14 JSON AST is read and every non-const file-scope variable the file defines
(`static` or not), every function-level `static`, and the shared variables of codevars.c (`AdrCnt`, `InstrZ`,
`InstTable`) as far as the file writes them, is classified:

  config      no function that runs while statements are decoded writes it (tables and per-CPU constants set up by
              SwitchTo_*/InitFields/code*_init, or by the per-pass initialisers only);
  scratch     written while statements are decoded, but every read that can be reached from a decoder entry point
              is preceded *on every path* by a write in the same invocation (operand-decoding temporaries);
  persistent  anything else: state that can survive from one statement to the next.  For these the table records
              whether a procedure registered with AddInitPassProc assigns it (`initPass`) and whether every
              SwitchTo_* function from which an access is reachable assigns it (`switchTo`) - the same flags as the
              rows of GenState.

How it is computed (syntactic, flow-sensitive inside a function, summaries across functions of the same file):

  * per function a forward walk over the statement tree with the set W of objects that are *certainly* written on
    the path walked so far (if/else: intersection, loops: body may run zero times unless the bounds are constant,
    switch: every label starts from the state at the switch, goto labels start from nothing);
    a read of an object not covered by W is *exposed*; summary = (exposed reads, may-writes, must-writes at return);
  * objects: `V`, `V.f`, `V[3]`, `V[*]` (any element), `P^` (what the file-scope pointer P points to);
    `&V` / array decay handed to a function that is not known to only read or only write = read + may-write;
  * calls inside the file apply the callee's summary; a call through a pointer, `LookupInstTable`, `SearchInstTree`
    may run any function whose address is taken in the file (the instruction callbacks); any other function outside
    the file may run the hooks the file installs (InternSymbol, DissectReg, ...);
  * entry points while statements are decoded: every function assigned to a hook variable of the core (MakeCode,
    DecodeAttrPart, IsDef, InternSymbol, ...), plus every address-taken function no entry point reaches;
  * `initPass` / `switchTo` use the may-assign closure of translate/globals.py (exact element ranges of counting loops).

When unsure the classification errs towards `persistent`.

The analysis result of one file is cached under VERIF_SCRATCH keyed by the content hash of the file, of all headers,
of codevars.c and of this analyser, so an unchanged file costs nothing and an edited one is always re-read.
"""
import concurrent.futures
import hashlib
import json
import os
import re
import sys

sys.path.insert(0, os.path.dirname(os.path.dirname(os.path.abspath(__file__))))
from vlib import common
from translate import globals as G
from translate.globals import ExtractError, _unwrap, _walk, _const, _callee, _strlit, _loop_range, _assigns_var

ANALYZER_VERSION = "1"

# functions outside the file that only read what their pointer arguments point to
READONLY_EXT = {"strcmp", "strncmp", "strlen", "memcmp", "strcasecmp", "strncasecmp", "as_strcasecmp", "as_strncasecmp", "strchr", "strrchr",
                "strstr", "printf", "fprintf", "puts", "fputs", "atoi", "strtol", "strtoul", "as_snprintf", "WrError", "WrXError", "WrStrErrorPos",
                "WrXErrorPos", "ChkRange", "free"}
# functions outside the file that (over)write what their first argument points to
WRITER_EXT = {"memset", "memcpy", "memmove", "strcpy", "strncpy", "strmaxcpy", "sprintf", "as_snprintf"}
# functions outside the file that only remember a function pointer handed to them
REGISTER_RE = re.compile(r"^(Add|Set|Register|Create|Enter)")
RESET_CALL_RE = re.compile(r"(Alloc|Clear|Init|Reset|Free|Destroy|_ini\b)")
DISPATCH_EXT = {"LookupInstTable", "SearchInstTree"}
# hook variables of the core that are only called from the statement loop of as.c, never from inside a decoder
OUTER_HOOKS = {"MakeCode", "DecodeAttrPart", "SwitchFrom"}
MODES = ("strong", "call")


class MS:
    """set of certainly-written objects; `top` = unreachable code (covers everything, identity of the intersection)"""
    __slots__ = ("s", "top")

    def __init__(self, s=None, top=False):
        self.s = set() if s is None else s
        self.top = top

    def copy(self):
        return MS(set(self.s), self.top)

    def assign(self, other):
        self.s = set(other.s)
        self.top = other.top


def meet(ws):
    live = [w for w in ws if not w.top]
    if not live:
        return MS(top=True)
    s = set(live[0].s)
    for w in live[1:]:
        s &= w.s
    return MS(s)


def comps(key):
    """`V[3].f` -> ['V', '[3]', '.f']; `P^` -> ['P', '^']"""
    return re.findall(r"\[[^\]]*\]|\.[A-Za-z_0-9]+|\^|\$\d+|[A-Za-z_][A-Za-z_0-9:]*", key)


def base_of(key):
    return comps(key)[0]


def overlaps(a, b):
    ca, cb = comps(a), comps(b)
    for x, y in zip(ca, cb):
        if x == y:
            continue
        if x.startswith("[") and y.startswith("[") and ("*" in (x[1:-1], y[1:-1]) or x[1] == "@" or y[1] == "@"):
            continue
        return False
    return True


def norm(key):
    """summary form of a key: loop-variable indices become `*`"""
    return re.sub(r"\[@[^\]]*\]", "[*]", key)


class FuncAnalysis:
    """one walk over a function body with the current summaries of the other functions"""

    def __init__(self, fa, fname, mode="strong"):
        self.fa = fa
        self.mode = mode
        self.fname = fname
        self.ue = set()
        self.mayw = set()
        self.exits = []
        pinfo = fa.pinfo.get(fname, ({}, {}, set()))
        self.allparams = pinfo[0]                                                       # decl id -> index, every pointer parameter
        self.params = {d: i for d, i in pinfo[0].items() if i not in pinfo[1]}          # ... the ones the function never re-assigns
        self.escaped = pinfo[2]
        self.ctx = []       # loop / switch contexts
        self.env = {}       # loop variable -> (lo, hi)

    def join(self, ws):
        """state after a control-flow join: written on every path (`strong`, `call`) / on some path (`any`)"""
        if self.mode != "any":
            return meet(ws)
        live = [w for w in ws if not w.top]
        if not live:
            return MS(top=True)
        s = set()
        for w in live:
            s |= w.s
        return MS(s)

    # ---- coverage
    def covered(self, W, key):
        if W.top:
            return True
        s = W.s
        if self.mode != "strong":
            b = base_of(key)
            for w in s:
                if w.startswith(b) and overlaps(w, key):
                    return True
        cs = comps(key)
        acc = ""
        for c in cs:
            acc += c
            if acc in s:
                return True
        for i, c in enumerate(cs):
            if c.startswith("[") and (c[1] == "*" or c[1] == "@"):
                if c[1] == "@":
                    rng = self.env.get(c[2:-1])
                else:
                    n = self.fa.sizes.get("".join(cs[:i]))
                    rng = (0, n) if n else None
                if not rng or rng[1] - rng[0] > 64:
                    return False
                return all(self.covered(W, "".join(cs[:i]) + "[%d]" % k + "".join(cs[i + 1:])) for k in range(rng[0], rng[1]))
        n = self.fa.sizes.get(key)
        if n and n <= 64:
            return all(self.covered(W, "%s[%d]" % (key, k)) for k in range(n))
        return False

    def read(self, key, W):
        if key is None or key.endswith("^"):
            return
        if not self.covered(W, key):
            self.ue.add(norm(key))

    def write(self, key, W, must=True):
        if key is None:
            return
        self.mayw.add(norm(key))
        if must and not W.top and not key.endswith("^") and ("*" not in key or self.mode != "strong"):
            W.s.add(key)

    def addr(self, key, W):
        if key is None or key.endswith("^"):
            return
        self.read(key, W)
        self.mayw.add(norm(key))

    # ---- lvalues
    def param_of(self, n):
        """index of the pointer parameter of the current function that `n` (casts stripped) is the plain value of, or None"""
        while n.get("kind") in ("ParenExpr", "CStyleCastExpr", "ImplicitCastExpr") and len(n.get("inner", [])) == 1:
            if n.get("kind") == "ImplicitCastExpr" and n.get("castKind") not in ("LValueToRValue", "BitCast", "NoOp"):
                return None
            n = n["inner"][0]
        if n.get("kind") == "DeclRefExpr":
            return self.params.get(n["referencedDecl"].get("id"))
        return None

    def root_var(self, n):
        """tracked variable (or `$i` = parameter i of the current function) at the root of a pointer-valued / lvalue expression"""
        while True:
            n = _unwrap(n)
            k = n.get("kind")
            if k == "DeclRefExpr":
                i = self.allparams.get(n["referencedDecl"].get("id"))
                if i is not None:
                    return "$%d" % i
                return self.fa.tracked.get(n["referencedDecl"].get("id"))
            if k in ("MemberExpr", "ArraySubscriptExpr") or (k == "UnaryOperator" and n.get("opcode") in ("*", "&", "++", "--")):
                n = n["inner"][0]
                continue
            if k == "BinaryOperator" and n.get("opcode") in ("+", "-"):
                n = n["inner"][0]
                continue
            return None

    def deref_key(self, e, W):
        """key of the object the pointer-valued expression `e` points to"""
        i = self.param_of(e)
        if i is not None:
            return "$%d" % i
        u = e
        while u.get("kind") in ("ParenExpr",) and len(u.get("inner", [])) == 1:
            u = u["inner"][0]
        if u.get("kind") == "ImplicitCastExpr" and u.get("castKind") == "ArrayToPointerDecay":
            bk = self.lv(u["inner"][0], W)      # *array = array[0]
            if bk is None or bk.endswith("^"):
                return bk
            return bk + "[0]"
        self.rv(e, W)
        r = self.root_var(e)
        if r is None:
            return None
        if r.startswith("$"):
            return r + "[*]"
        return r + "^"

    def lv(self, n, W):
        """key of the object an lvalue expression denotes (reads of index / pointer sub-expressions are recorded)"""
        while n.get("kind") in ("ParenExpr",) and len(n.get("inner", [])) == 1:
            n = n["inner"][0]
        k = n.get("kind")
        if k == "DeclRefExpr":
            return self.fa.tracked.get(n["referencedDecl"].get("id"))
        if k == "ArraySubscriptExpr":
            b, i = n["inner"][0], n["inner"][1]
            self.rv(i, W)
            bb = b
            while bb.get("kind") in ("ParenExpr",) and len(bb.get("inner", [])) == 1:
                bb = bb["inner"][0]
            c = _const(i)
            if bb.get("kind") == "ImplicitCastExpr" and bb.get("castKind") == "ArrayToPointerDecay":
                bk = self.lv(bb["inner"][0], W)
                if bk is None:
                    return None
                if bk.endswith("^"):
                    return bk
                if c is not None:
                    return "%s[%d]" % (bk, c)
                iv = _unwrap(i)
                if iv.get("kind") == "DeclRefExpr" and iv["referencedDecl"]["name"] in self.env:
                    return "%s[@%s]" % (bk, iv["referencedDecl"]["name"])
                return bk + "[*]"
            # pointer[index]
            dk = self.deref_key(b, W)
            if dk is None or dk.endswith("^") or dk.endswith("[*]"):
                return dk
            if c == 0:
                return dk
            if c is not None:
                return "%s[%d]" % (dk, c)
            return dk + "[*]"
        if k == "MemberExpr":
            b = n["inner"][0]
            if n.get("isArrow"):
                dk = self.deref_key(b, W)
                if dk is None or dk.endswith("^"):
                    return dk
                return "%s.%s" % (dk, n.get("name", "?"))
            bk = self.lv(b, W)
            if bk is None:
                return None
            if bk.endswith("^"):
                return bk
            return "%s.%s" % (bk, n.get("name", "?"))
        if k == "UnaryOperator" and n.get("opcode") == "*":
            return self.deref_key(n["inner"][0], W)
        if k in ("ImplicitCastExpr", "CStyleCastExpr") and len(n.get("inner", [])) == 1 and n.get("castKind") in ("NoOp", "BitCast", "LValueBitCast"):
            return self.lv(n["inner"][0], W)
        self.rv(n, W)
        return None

    # ---- calls
    @staticmethod
    def subst(k, kind, key):
        """key `$i...` of a callee's summary in terms of the caller's argument (`obj`: &key, `arr`: key decayed to &key[0])"""
        cs = comps(k)[1:]
        if kind == "arr":
            if cs and re.match(r"^\[(\d+|\*)\]$", cs[0]):
                return key + "".join(cs)
            return key + "[0]" + "".join(cs)
        if cs and re.match(r"^\[(\d+|\*)\]$", cs[0]):
            # beyond the object itself: an element of the array the object lives in
            m = re.match(r"^(.*)\[(\d+|\*|@\w+)\]$", key)
            if m:
                return m.group(1) + "[*]" + "".join(cs[1:])
            if cs[0] == "[*]":
                return key + "".join(cs[1:])   # p[i] on the address of a single object: the object (or beyond it - not modelled)
            return None
        return key + "".join(cs)

    def apply(self, g, W, must, amap=None):
        s = self.fa.summ.get(g)
        if s is None:
            return
        ue, mayw, mw = s
        weak = self.mode != "strong" and self.fname not in self.fa.roots
        if self.mode != "strong" and not weak:
            # an entry point (MakeCode_*, a hook) calls its helpers one after the other for *every* statement: what one of them may
            # write for one kind of statement must not hide what another reads for the next kind - certain writes only
            mw = self.fa.strong[g][2]

        def tr(k):
            """-> translated key, or None (not an object this file tracks), or ('^', root)"""
            if not k.startswith("$"):
                return k
            if not amap:
                return None
            inf = amap.get(int(comps(k)[0][1:]))
            if inf is None:
                return None
            if inf[0] == "ptr":
                return ("^", inf[1])
            return self.subst(k, inf[0], inf[1])
        for k in ue:
            t = tr(k)
            if t is None or isinstance(t, tuple):
                continue
            if not self.covered(W, t):
                self.ue.add(norm(t))
        mws = set()
        for k in mayw:
            t = tr(k)
            if t is None:
                continue
            if isinstance(t, tuple):
                self.mayw.add(t[1] + ("^" if not t[1].startswith("$") else "[*]"))
                continue
            self.mayw.add(norm(t))
            if not t.endswith("^"):
                mws.add(t)
        if must and not W.top:
            for k in mw:
                t = tr(k)
                if t is not None and not isinstance(t, tuple) and "*" not in t:
                    W.s.add(t)
            if weak:
                # weak rule: after a call that is certainly made, what the callee may write counts as written
                W.s |= mws

    def may_call(self, funcs, W):
        for g in funcs:
            self.apply(g, W, False)

    @staticmethod
    def _decayed(n):
        """the array lvalue if `n` (casts stripped) is an array decayed to a pointer"""
        while n.get("kind") in ("ParenExpr", "CStyleCastExpr") or (n.get("kind") == "ImplicitCastExpr" and n.get("castKind") in ("BitCast", "NoOp")):
            if len(n.get("inner", [])) != 1:
                return None
            n = n["inner"][0]
        if n.get("kind") == "ImplicitCastExpr" and n.get("castKind") == "ArrayToPointerDecay":
            return n["inner"][0]
        return None

    def arg_obj(self, a, W):
        """what a pointer argument points to: ('obj', key) address of an object, ('arr', key) decayed array, ('ptr', root) value of a
        tracked pointer; None if it is nothing this file tracks.  Sub-expressions are evaluated."""
        u = a
        while u.get("kind") in ("ParenExpr", "CStyleCastExpr") or (u.get("kind") == "ImplicitCastExpr" and u.get("castKind") in ("BitCast", "NoOp")):
            if len(u.get("inner", [])) != 1:
                break
            u = u["inner"][0]
        if u.get("kind") == "UnaryOperator" and u.get("opcode") == "&":
            key = self.lv(u["inner"][0], W)
            kind = "obj"
        elif u.get("kind") == "ImplicitCastExpr" and u.get("castKind") == "ArrayToPointerDecay":
            key = self.lv(u["inner"][0], W)
            kind = "arr"
        elif u.get("kind") == "BinaryOperator" and u.get("opcode") == "+" and self._decayed(u["inner"][0]) is not None:
            # array + index = &array[index]
            key = self.lv(self._decayed(u["inner"][0]), W)
            self.rv(u["inner"][1], W)
            c = _const(u["inner"][1])
            if key is not None and not key.endswith("^"):
                key = "%s[%s]" % (key, "*" if c is None else c)
            kind = "obj"
        else:
            i = self.param_of(u)
            if i is not None:
                return ("obj", "$%d" % i)
            self.rv(a, W)
            r = self.root_var(a)
            if r and r.startswith("$"):
                return ("obj", r + "[*]")
            if r and "*" in self.fa.types.get(r, ""):
                return ("ptr", r)
            return None
        if key is None:
            return None
        if key.endswith("^"):
            return ("ptr", key[:-1])
        return (kind, key)

    def ext_arg(self, a, W, mode):
        """pointer argument of a function outside the file; mode: 'r' only read, 'w' written, 'rw' unknown"""
        inf = self.arg_obj(a, W)
        if inf is None:
            return
        kind, key = inf
        if kind == "ptr":
            if mode != "r":
                self.mayw.add(key + "^")
            return
        if mode == "r":
            self.read(key, W)
        elif mode == "w":
            self.write(key, W, must=True)
        else:
            self.addr(key, W)

    def call(self, n, W):
        inner = n["inner"]
        cal = _unwrap(inner[0])
        args = inner[1:]
        cn = None
        if cal.get("kind") == "DeclRefExpr" and cal["referencedDecl"].get("kind") == "FunctionDecl":
            cn = cal["referencedDecl"]["name"]
        else:
            self.rv(inner[0], W)
        infile = cn in self.fa.funcs
        ptypes = param_types(cal.get("type", {}).get("qualType", "")) if cn else []
        # arguments
        fargs = []
        amap = {}
        for idx, a in enumerate(args):
            ua = _unwrap(a)
            if ua.get("kind") == "UnaryOperator" and ua.get("opcode") == "&":
                ub = _unwrap(ua["inner"][0])
            else:
                ub = ua
            if ub.get("kind") == "DeclRefExpr" and ub["referencedDecl"].get("kind") == "FunctionDecl":
                if ub["referencedDecl"]["name"] in self.fa.funcs:
                    fargs.append(ub["referencedDecl"]["name"])
                continue
            if infile:
                inf = self.arg_obj(a, W)
                if inf:
                    amap[idx] = inf
                continue
            if cn == "SetFlag" and idx == 0:
                mode = "w"
            elif cn in WRITER_EXT and idx == 0:
                mode = "w"
            elif cn in READONLY_EXT or (cn in WRITER_EXT and idx > 0):
                mode = "r"
            elif idx < len(ptypes) and ptr_to_const(ptypes[idx]):
                mode = "r"
            else:
                mode = "rw"
            self.ext_arg(a, W, mode)
        if infile:
            self.apply(cn, W, True, amap)
            return
        if cn is None:
            self.may_call(self.fa.callbacks, W)
            return
        if cn in DISPATCH_EXT:
            self.may_call(self.fa.callbacks, W)
            return
        if fargs and not REGISTER_RE.match(cn):
            self.may_call(fargs, W)
        if cn not in READONLY_EXT and cn not in WRITER_EXT and not REGISTER_RE.match(cn):
            self.may_call(self.fa.inner_hooks, W)

    # ---- expressions
    def rv(self, n, W):
        if not isinstance(n, dict):
            return
        k = n.get("kind")
        if k == "ImplicitCastExpr":
            ck = n.get("castKind")
            if ck == "LValueToRValue":
                self.read(self.lv(n["inner"][0], W), W)
                return
            if ck == "ArrayToPointerDecay":
                self.addr(self.lv(n["inner"][0], W), W)
                return
            for c in n.get("inner", []):
                self.rv(c, W)
            return
        if k == "UnaryExprOrTypeTraitExpr":
            return
        if k == "DeclRefExpr":
            return   # a bare reference without lvalue-to-rvalue conversion reads nothing (function names, array operands handled above)
        if k in ("MemberExpr", "ArraySubscriptExpr"):
            self.lv(n, W)   # address computation only
            return
        if k == "UnaryOperator":
            op = n.get("opcode")
            if op == "&":
                self.addr(self.lv(n["inner"][0], W), W)
                return
            if op in ("++", "--"):
                key = self.lv(n["inner"][0], W)
                self.read(key, W)
                self.write(key, W)
                return
            if op == "*":
                self.lv(n, W)
                return
            self.rv(n["inner"][0], W)
            return
        if k == "BinaryOperator":
            op = n.get("opcode")
            a, b = n["inner"][0], n["inner"][1]
            if op == "=":
                self.rv(b, W)
                key = self.lv(a, W)
                self.write(key, W)
                return
            if op in ("&&", "||"):
                Wt, Wf = self.rvc(n, W)
                W.assign(self.join([Wt, Wf]))
                return
            if op in ("==", "!=", "<", ">", "<=", ">=", "-"):
                for x in (a, b):
                    u = x
                    while u.get("kind") in ("ParenExpr", "CStyleCastExpr") or (u.get("kind") == "ImplicitCastExpr" and u.get("castKind") in ("BitCast", "NoOp")):
                        if len(u.get("inner", [])) != 1:
                            break
                        u = u["inner"][0]
                    if u.get("kind") == "ImplicitCastExpr" and u.get("castKind") == "ArrayToPointerDecay":
                        self.lv(u["inner"][0], W)    # only the address is used
                    else:
                        self.rv(x, W)
                return
            self.rv(a, W)
            self.rv(b, W)
            return
        if k == "CompoundAssignOperator":
            a, b = n["inner"][0], n["inner"][1]
            self.rv(b, W)
            key = self.lv(a, W)
            self.read(key, W)
            self.write(key, W)
            return
        if k == "ConditionalOperator":
            c, a, b = n["inner"]
            W1, W2 = self.rvc(c, W)
            self.rv(a, W1)
            self.rv(b, W2)
            W.assign(self.join([W1, W2]))
            return
        if k == "CallExpr":
            self.call(n, W)
            return
        if k in ("CompoundStmt", "IfStmt", "ForStmt", "WhileStmt", "DoStmt", "SwitchStmt", "ReturnStmt", "DeclStmt"):
            W.assign(self.st(n, W))   # statement expression
            return
        for c in n.get("inner", []) or []:
            self.rv(c, W)

    def rvc(self, n, W):
        """evaluate a condition: (state when it is true, state when it is false); W is consumed"""
        u = n
        while u.get("kind") in ("ParenExpr",) and len(u.get("inner", [])) == 1:
            u = u["inner"][0]
        k = u.get("kind")
        if k == "BinaryOperator" and u.get("opcode") == "&&":
            At, Af = self.rvc(u["inner"][0], W)
            Bt, Bf = self.rvc(u["inner"][1], At)
            return Bt, self.join([Af, Bf])
        if k == "BinaryOperator" and u.get("opcode") == "||":
            At, Af = self.rvc(u["inner"][0], W)
            Bt, Bf = self.rvc(u["inner"][1], Af)
            return self.join([At, Bt]), Bf
        if k == "UnaryOperator" and u.get("opcode") == "!":
            t, f = self.rvc(u["inner"][0], W)
            return f, t
        if k == "ImplicitCastExpr" and u.get("castKind") in ("IntegralToBoolean", "IntegralCast", "NoOp") and len(u.get("inner", [])) == 1:
            return self.rvc(u["inner"][0], W)
        self.rv(u, W)
        return W, W.copy()

    # ---- statements
    def close_loop_keys(self, W, var, rng):
        """leave a counting loop: `V[@var]` certainly written in every round = V[lo] .. V[hi-1] written"""
        if W.top:
            return
        tag = "[@%s]" % var
        for key in [x for x in W.s if tag in x]:
            W.s.discard(key)
            if rng and key.count("@") == 1 and rng[1] - rng[0] <= 256:
                for c in range(rng[0], rng[1]):
                    W.s.add(key.replace(tag, "[%d]" % c))
                b = key[:key.index(tag)]
                if key.endswith(tag) and rng[0] == 0 and self.fa.sizes.get(b) == rng[1]:
                    W.s.add(b)

    def st(self, n, W):
        """returns the state after the statement (top = does not complete normally)"""
        if not isinstance(n, dict):
            return W
        k = n.get("kind")
        if k == "CompoundStmt":
            for c in n.get("inner", []) or []:
                W = self.st(c, W)
            return W
        if k == "IfStmt":
            inner = n["inner"]
            cond, then = inner[0], inner[1]
            els = inner[2] if len(inner) > 2 else None
            Wt, Wf = self.rvc(cond, W)
            W1 = self.st(then, Wt)
            W2 = self.st(els, Wf) if els is not None else Wf
            return self.join([W1, W2])
        if k == "ForStmt":
            init, _cv, cond, inc, body = n["inner"]
            if isinstance(init, dict) and init:
                W = self.st(init, W) if init.get("kind") == "DeclStmt" else (self.rv(init, W) or W)
            r = _loop_range(n)
            if r and (_assigns_var(body, r[0]) or r[0] in self.env):
                r = None
            Wt = W.copy()
            if isinstance(cond, dict) and cond:
                Wt, W = self.rvc(cond, W)
            endless = not (isinstance(cond, dict) and cond)
            self.ctx.append(dict(kind="loop", breaks=[], conts=[]))
            if r:
                self.env[r[0]] = (r[1], r[2])
            Wb = self.st(body, Wt)
            cx = self.ctx.pop()
            Wb = self.join([Wb] + cx["conts"])
            if isinstance(inc, dict) and inc:
                self.rv(inc, Wb)
            if r:
                del self.env[r[0]]
            if r and r[2] > r[1]:
                # at least one round, exactly the rounds lo .. hi-1 if no break leaves early
                if not cx["breaks"]:
                    self.close_loop_keys(Wb, r[0], (r[1], r[2]))
                    return Wb
                out = self.join([Wb] + cx["breaks"])
                self.close_loop_keys(out, r[0], None)
                return out
            for b in cx["breaks"]:
                self.close_loop_keys(b, r[0] if r else "", None)
            if endless:
                return self.join(cx["breaks"])
            return self.join([W, Wb] + cx["breaks"])
        if k == "WhileStmt":
            cond, body = n["inner"][-2], n["inner"][-1]
            Wt, W = self.rvc(cond, W)
            self.ctx.append(dict(kind="loop", breaks=[], conts=[]))
            Wb = self.st(body, Wt)
            cx = self.ctx.pop()
            if _const(cond) not in (None, 0):
                return self.join(cx["breaks"])
            return self.join([W, Wb] + cx["breaks"] + cx["conts"])
        if k == "DoStmt":
            body, cond = n["inner"][0], n["inner"][1]
            self.ctx.append(dict(kind="loop", breaks=[], conts=[]))
            Wb = self.st(body, W.copy())
            cx = self.ctx.pop()
            Wb = self.join([Wb] + cx["conts"])
            self.rv(cond, Wb)
            return self.join([Wb] + cx["breaks"])
        if k == "SwitchStmt":
            cond, body = n["inner"][-2], n["inner"][-1]
            self.rv(cond, W)
            cx = dict(kind="switch", breaks=[], entry=W.copy(), default=False)
            self.ctx.append(cx)
            We = self.st(body, MS(top=True))
            self.ctx.pop()
            return self.join([We] + cx["breaks"] + ([] if cx["default"] else [cx["entry"]]))
        if k in ("CaseStmt", "DefaultStmt"):
            cx = next((c for c in reversed(self.ctx) if c["kind"] == "switch"), None)
            if cx is not None:
                W = self.join([W, cx["entry"]]) if not W.top else cx["entry"].copy()
                if k == "DefaultStmt":
                    cx["default"] = True
            else:
                W = MS()
            return self.st(n["inner"][-1], W)
        if k == "BreakStmt":
            if self.ctx:
                self.ctx[-1]["breaks"].append(W.copy())
            return MS(top=True)
        if k == "ContinueStmt":
            cx = next((c for c in reversed(self.ctx) if c["kind"] == "loop"), None)
            if cx is not None:
                cx["conts"].append(W.copy())
            return MS(top=True)
        if k == "ReturnStmt":
            for c in n.get("inner", []) or []:
                self.rv(c, W)
            self.exits.append(W.copy())
            return MS(top=True)
        if k == "GotoStmt":
            self.gotos.setdefault(n.get("targetLabelDeclId"), []).append(W.copy())
            return MS(top=True)
        if k == "LabelStmt":
            # all jumps to the label seen already (forward jumps only): intersection with the fall-through state; else nothing is certain
            seen = self.gotos.get(n.get("declId"), [])
            if len(seen) == self.ngotos.get(n.get("declId"), 0):
                W = self.join([W] + seen)
            else:
                W = MS()
            for c in n.get("inner", []) or []:
                W = self.st(c, W)
            return W
        if k == "DeclStmt":
            for d in n.get("inner", []) or []:
                if d.get("kind") == "VarDecl" and d.get("storageClass") != "static":
                    for c in d.get("inner", []) or []:
                        self.rv(c, W)
            return W
        if k in ("NullStmt",):
            return W
        self.rv(n, W)
        return W

    def run(self, body):
        self.gotos, self.ngotos = {}, {}
        for n in _walk(body):
            if n.get("kind") in ("GotoStmt", "IndirectGotoStmt"):
                t = n.get("targetLabelDeclId")
                self.ngotos[t] = self.ngotos.get(t, 0) + 1
        for i in self.escaped:
            # the pointer is stored / handed on in a way that is not followed: anything may happen to the object
            self.ue.add("$%d[*]" % i)
            self.mayw.add("$%d[*]" % i)
        W = self.st(body, MS())
        self.exits.append(W)
        mw = self.join(self.exits)
        mws = set() if mw.top else {norm(x) if self.mode != "strong" else x for x in mw.s if "@" not in x or self.mode != "strong"}
        return frozenset(self.ue), frozenset(self.mayw), frozenset(mws)



def param_types(qt):
    """parameter type strings of a function type `R (T1, T2, ...)`"""
    i = qt.find("(")
    if i < 0:
        return []
    depth, cur, out = 0, "", []
    for ch in qt[i + 1:]:
        if ch == "(":
            depth += 1
        elif ch == ")":
            if depth == 0:
                break
            depth -= 1
        if ch == "," and depth == 0:
            out.append(cur.strip())
            cur = ""
        else:
            cur += ch
    if cur.strip():
        out.append(cur.strip())
    return out


def ptr_to_const(t):
    """is `t` a pointer whose pointee cannot be written through it?"""
    t = re.sub(r"\b(restrict|__restrict)\b", "", t).strip()
    if "(" in t:
        return False
    t = re.sub(r"\s*const$", "", t).strip()
    if not t.endswith("*"):
        return False
    return _is_const(t[:-1])


def param_writes(funcs, fdecls):
    """for every function of the file: indices of the pointer parameters it may write through (directly, by handing the pointer
    on to a function that may, or by letting the pointer escape); fixpoint from below"""
    info = {}
    for fn, body in funcs.items():
        params = [c for c in fdecls[fn].get("inner", []) if c.get("kind") == "ParmVarDecl"]
        pid = {c["id"]: i for i, c in enumerate(params)}
        parent = {}
        for n in _walk(body):
            for c in n.get("inner", []) or []:
                if isinstance(c, dict):
                    parent[id(c)] = n
        uses = []   # (param index, kind, detail)
        for n in _walk(body):
            if n.get("kind") != "DeclRefExpr" or n["referencedDecl"].get("id") not in pid:
                continue
            i = pid[n["referencedDecl"]["id"]]
            cur, deref = n, False
            verdict = None
            while verdict is None:
                par = parent.get(id(cur))
                if par is None:
                    verdict = ("escape",)
                    break
                k = par.get("kind")
                if k in ("ImplicitCastExpr", "ParenExpr", "CStyleCastExpr"):
                    if k == "ImplicitCastExpr" and par.get("castKind") == "LValueToRValue" and deref:
                        verdict = ("deref-read",)
                        break
                    cur = par
                    continue
                if not deref:
                    # `cur` has the value of the pointer
                    if k == "ArraySubscriptExpr" and par["inner"][0] is cur:
                        cur, deref = par, True
                        continue
                    if k == "UnaryOperator" and par.get("opcode") == "*":
                        cur, deref = par, True
                        continue
                    if k == "MemberExpr" and par.get("isArrow"):
                        cur, deref = par, True
                        continue
                    if k == "BinaryOperator" and par.get("opcode") in ("+", "-") and par["inner"][0] is cur:
                        cur = par
                        continue
                    if k == "BinaryOperator" and par.get("opcode") in ("==", "!=", "<", ">", "<=", ">=", "&&", "||", "-"):
                        verdict = ("read",)
                        break
                    if k == "UnaryOperator" and par.get("opcode") == "!":
                        verdict = ("read",)
                        break
                    if k in ("IfStmt", "WhileStmt", "DoStmt", "ForStmt") or (k == "ConditionalOperator" and par["inner"][0] is cur):
                        verdict = ("read",)
                        break
                    if k == "CallExpr" and par["inner"][0] is not cur:
                        verdict = ("arg", _callee(par), par["inner"][1:].index(cur) if cur in par["inner"][1:] else -1, _unwrap(par["inner"][0]).get("type", {}).get("qualType", ""))
                        break
                    if k == "BinaryOperator" and par.get("opcode") == "=" and par["inner"][0] is cur:
                        verdict = ("read",)   # the parameter variable itself is re-assigned
                        break
                    if k in ("UnaryOperator", "CompoundAssignOperator") and par.get("opcode") in ("++", "--", "+=", "-=") and par["inner"][0] is cur:
                        cur = par   # p++ has the value of the pointer
                        continue
                    verdict = ("escape",)
                    break
                else:
                    # `cur` is an lvalue inside the pointee
                    if k == "MemberExpr" and not par.get("isArrow"):
                        cur = par
                        continue
                    if k == "ArraySubscriptExpr" and par["inner"][0] is cur:
                        cur = par
                        continue
                    if k == "ImplicitCastExpr":
                        cur = par
                        continue
                    if k == "BinaryOperator" and par.get("opcode") == "=" and par["inner"][0] is cur:
                        verdict = ("write",)
                        break
                    if k == "CompoundAssignOperator" and par["inner"][0] is cur:
                        verdict = ("readwrite",)
                        break
                    if k == "UnaryOperator" and par.get("opcode") in ("++", "--", "&"):
                        verdict = ("readwrite",)
                        break
                    if k == "UnaryExprOrTypeTraitExpr":
                        verdict = ("read",)
                        break
                    verdict = ("escape",)
                    break
            # array-typed / pointer-typed member reached through the pointer and decayed: treated as escape above (ImplicitCastExpr chain ends in a call etc.)
            uses.append((i, verdict))
        info[fn] = (params, uses)
    out = {}
    for fn, (params, uses) in info.items():
        ids = {c["id"]: i for i, c in enumerate(params) if "*" in c.get("type", {}).get("qualType", "") or "[" in c.get("type", {}).get("qualType", "")}
        modified = {i for i, c in enumerate(params) if "name" in c and _assigns_var(funcs[fn], c["name"])}
        escaped = {i for i, v in uses if v[0] == "escape" and i in ids.values()}
        out[fn] = (ids, modified, escaped)
    return out


class FileAnalysis:
    pass


def _is_const(qt):
    t = re.sub(r"\[[^\]]*\]", "", qt).strip()
    if "*" in t:
        return t.endswith("const")
    return bool(re.search(r"\bconst\b", t))


def analyse_ast(ast, fname, shared_names):
    fa = FileAnalysis()
    fa.funcs, fa.tracked, fa.sizes, fa.types = {}, {}, {}, {}
    defined = {}
    top_inits = []
    for d in ast.get("inner", []):
        k = d.get("kind")
        if k == "FunctionDecl":
            body = [c for c in d.get("inner", []) if c.get("kind") == "CompoundStmt"]
            if body:
                fa.funcs[d["name"]] = body[0]
        elif k == "VarDecl":
            qt = d.get("type", {}).get("qualType", "")
            if d.get("storageClass") != "extern":
                defined[d["name"]] = qt
                top_inits.append(d)
    # ids of every declaration of a tracked variable (definition and earlier extern declarations)
    names = {n: t for n, t in defined.items() if not _is_const(t)}
    for d in ast.get("inner", []):
        if d.get("kind") == "VarDecl" and (d["name"] in names or d["name"] in shared_names):
            fa.tracked[d["id"]] = d["name"]
            qt = d.get("type", {}).get("qualType", "")
            fa.types.setdefault(d["name"], qt)
            m = re.search(r"\[(\d+)\]", qt)
            if m and "*" not in qt.split("[")[0]:
                fa.sizes[d["name"]] = int(m.group(1))
            elif m:
                fa.sizes[d["name"]] = int(m.group(1))
    fa.shared = {n for n in shared_names if n not in defined}
    # function-level statics
    for fn, body in fa.funcs.items():
        for n in _walk(body):
            if n.get("kind") == "VarDecl" and n.get("storageClass") == "static":
                qt = n.get("type", {}).get("qualType", "")
                if _is_const(qt):
                    continue
                nm = "%s::%s" % (fn, n["name"])
                fa.tracked[n["id"]] = nm
                fa.types[nm] = qt
                m = re.search(r"\[(\d+)\]", qt)
                if m:
                    fa.sizes[nm] = int(m.group(1))
                names[nm] = qt

    # roles of functions: where is their address taken / to whom are they handed
    hooks = {}            # function -> set of hook variables it is assigned to
    addr_taken = set()
    init_roots, switch_roots, cleanup_roots = set(), set(), set()
    instr = {}            # callback -> set of instruction names registered with it
    helpers = {}          # in-file registration helper -> (index of its name parameter, callback)
    cpu_names = []

    def fn_ref(x):
        x = _unwrap(x)
        if x.get("kind") == "UnaryOperator" and x.get("opcode") == "&":
            x = _unwrap(x["inner"][0])
        if x.get("kind") == "DeclRefExpr" and x["referencedDecl"].get("kind") == "FunctionDecl" and x["referencedDecl"]["name"] in fa.funcs:
            return x["referencedDecl"]["name"]
        return None

    for d in top_inits:
        for n in _walk(d):
            if n.get("kind") == "DeclRefExpr" and n["referencedDecl"].get("kind") == "FunctionDecl" and n["referencedDecl"]["name"] in fa.funcs:
                addr_taken.add(n["referencedDecl"]["name"])
    fdecls = {d["name"]: d for d in ast.get("inner", []) if d.get("kind") == "FunctionDecl" and d["name"] in fa.funcs and any(c.get("kind") == "CompoundStmt" for c in d.get("inner", []))}
    for fn, body in fa.funcs.items():
        params = [c["name"] for c in fdecls[fn].get("inner", []) if c.get("kind") == "ParmVarDecl" and "name" in c]
        for n in _walk(body):
            k = n.get("kind")
            if k == "BinaryOperator" and n.get("opcode") == "=":
                g = fn_ref(n["inner"][1])
                if g:
                    lhs = _unwrap(n["inner"][0])
                    if lhs.get("kind") == "DeclRefExpr" and lhs["referencedDecl"].get("id") not in fa.tracked and lhs["referencedDecl"].get("kind") == "VarDecl" \
                            and lhs["referencedDecl"]["name"] not in _locals(body):
                        hooks.setdefault(g, set()).add(lhs["referencedDecl"]["name"])
                    else:
                        addr_taken.add(g)
            elif k == "CallExpr":
                cn = _callee(n)
                args = n["inner"][1:]
                for idx, a in enumerate(args):
                    g = fn_ref(a)
                    if not g:
                        continue
                    if cn == "AddInitPassProc":
                        init_roots.add(g)
                    elif cn in ("AddCPU", "AddCPUUser", "AddCPUWithArgs", "AddCPUUserWithArgs"):
                        switch_roots.add(g)
                    elif cn == "AddCleanUpProc":
                        cleanup_roots.add(g)
                    else:
                        addr_taken.add(g)
                if cn in ("AddCPU", "AddCPUUser", "AddCPUWithArgs", "AddCPUUserWithArgs") and args:
                    nm = _strlit(args[0])
                    if nm:
                        cpu_names.append(nm)
                if cn in ("AddInstTable", "AddInstTree") and len(args) >= 4:
                    if cn == "AddInstTable":
                        na, cb = args[1], fn_ref(args[3])
                    else:
                        na, cb = args[1], fn_ref(args[2])
                    if cb:
                        s = _strlit(na)
                        if s is not None:
                            instr.setdefault(cb, set()).add(s)
                        else:
                            u = _unwrap(na)
                            if u.get("kind") == "DeclRefExpr" and u["referencedDecl"].get("kind") == "ParmVarDecl" and u["referencedDecl"]["name"] in params:
                                helpers.setdefault(fn, []).append((params.index(u["referencedDecl"]["name"]), cb))
            elif k in ("VarDecl",) and n.get("storageClass") == "static":
                for m in _walk(n):
                    if m.get("kind") == "DeclRefExpr" and m["referencedDecl"].get("kind") == "FunctionDecl" and m["referencedDecl"]["name"] in fa.funcs:
                        addr_taken.add(m["referencedDecl"]["name"])
            elif k in ("InitListExpr", "ReturnStmt", "ConditionalOperator"):
                for c in n.get("inner", []) or []:
                    g = fn_ref(c) if isinstance(c, dict) else None
                    if g:
                        addr_taken.add(g)
    # instruction names registered through helpers (`AddFixed("NOP", 0x0009)`)
    if helpers:
        for fn, body in fa.funcs.items():
            for n in _walk(body):
                if n.get("kind") == "CallExpr" and _callee(n) in helpers:
                    args = n["inner"][1:]
                    for pi, cb in helpers[_callee(n)]:
                        if pi < len(args):
                            s = _strlit(args[pi])
                            if s is not None:
                                instr.setdefault(cb, set()).add(s)
    for f in fa.funcs:
        if f.startswith("SwitchTo_"):
            switch_roots.add(f)
    switchfrom_roots = {g for g, hs in hooks.items() if "SwitchFrom" in hs}
    fa.callbacks = sorted(addr_taken - init_roots - switch_roots)
    fa.inner_hooks = sorted(g for g, hs in hooks.items() if hs - OUTER_HOOKS)
    stmt_roots = sorted(g for g, hs in hooks.items() if hs - {"SwitchFrom"})
    init_fn = sorted(f for f in fa.funcs if re.match(r"^code.*_init$", f))
    config_roots = sorted(set(switch_roots) | switchfrom_roots | cleanup_roots | set(init_fn))

    # entry points no other entry point reaches become entry points themselves
    def reach(roots):
        seen, todo = set(), list(roots)
        while todo:
            f = todo.pop()
            if f in seen or f not in fa.funcs:
                continue
            seen.add(f)
            disp = False
            for n in _walk(fa.funcs[f]):
                if n.get("kind") == "CallExpr":
                    cn = _callee(n)
                    if cn in fa.funcs:
                        todo.append(cn)
                    elif cn is None or cn in DISPATCH_EXT:
                        disp = True
            if disp:
                todo += fa.callbacks
        return seen
    reached = reach(stmt_roots)
    orphan = sorted(set(fa.callbacks) - reached - set(config_roots))
    # an orphan that is only called from configuration code (a registration helper handed around) stays configuration
    cfg_reach = reach_calls_only(fa, config_roots + sorted(init_roots))
    orphan = [f for f in orphan if f not in cfg_reach]
    stmt_roots = sorted(set(stmt_roots) | set(orphan))

    fa.roots = set(stmt_roots)
    fa.pinfo = param_writes(fa.funcs, fdecls)

    # ---- summaries: phase 1 must-writes / may-writes from below, phase 2 exposed reads from below
    order = sorted(fa.funcs)
    summs = {}
    for mode in MODES:
        fa.summ = {f: (frozenset(), frozenset(), frozenset()) for f in order}
        for phase in (1, 2):
            if phase == 2:
                fa.summ = {f: (frozenset(), s[1], s[2]) for f, s in fa.summ.items()}
            for rnd in range(40):
                changed = False
                for f in order:
                    r = FuncAnalysis(fa, f, mode).run(fa.funcs[f])
                    old = fa.summ[f]
                    if phase == 1:
                        new = (frozenset(), r[1] | old[1], r[2] | old[2])
                    else:
                        new = (r[0] | old[0], old[1], old[2])
                    if new != old:
                        fa.summ[f] = new
                        changed = True
                if not changed:
                    break
            else:
                raise ExtractError("%s: summaries do not stabilise" % fname)
        summs[mode] = fa.summ
        if mode == "strong":
            fa.strong = fa.summ
    fa.summ = summs["strong"]

    stmt_w = set()
    for r in stmt_roots:
        stmt_w |= fa.summ[r][1]
    ue_of = {}
    for mode in MODES:
        u = set()
        for r in stmt_roots + config_roots + sorted(init_roots):
            if r in summs[mode]:
                u |= summs[mode][r][0]
        ue_of[mode] = u
    all_w = set()
    for f in fa.funcs:
        all_w |= fa.summ[f][1]

    # ---- reset flags: may-assign closure (exact loop ranges) of translate/globals.py
    eff = {}
    for fn, b in fa.funcs.items():
        a_, c_ = G.direct_effects(b)
        a_ = set(a_)
        for n in _walk(b):
            # `ClearStringList(&V)`, `StrCompAlloc(&V, ...)`: a (re-)initialising function outside the file is handed the object
            if n.get("kind") == "CallExpr" and _callee(n) and _callee(n) not in fa.funcs and RESET_CALL_RE.search(_callee(n)):
                for x in n["inner"][1:]:
                    key = G.address_key(x)
                    if key:
                        a_.add(re.sub(r"\[0\]$", "", key))
        eff[fn] = (a_, c_)
    ideff = {}
    for fn, b in fa.funcs.items():
        # keys of direct_effects are names: drop the ones that denote a local variable of the same name
        loc = _locals(b)
        ideff[fn] = ({k for k in eff[fn][0] if re.split(r"[\[.]", k)[0] not in loc}, eff[fn][1])

    def closure(roots):
        seen, out = set(), set()
        todo = [r for r in roots if r in fa.funcs]
        while todo:
            f = todo.pop()
            if f in seen:
                continue
            seen.add(f)
            a, c = ideff[f]
            out |= a
            todo += [x for x in c if x in fa.funcs]
        return out, seen
    init_assigned, _s = closure(init_roots)
    sw = {f: closure([f]) for f in switch_roots}
    # functions reachable from a switch function as callback or callee (what can run while its target is selected)
    sw_reach = {}
    for f in switch_roots:
        regs = set()
        for g in sw[f][1]:
            for n in _walk(fa.funcs[g]):
                if n.get("kind") == "DeclRefExpr" and n["referencedDecl"].get("kind") == "FunctionDecl" and n["referencedDecl"]["name"] in fa.funcs:
                    regs.add(n["referencedDecl"]["name"])
        sw_reach[f] = reach(regs) | sw[f][1]

    def accessors(var):
        out = set()
        for f in fa.funcs:
            s = fa.summ[f]
            if any(base_of(k) == var for k in s[0] | s[1]):
                out.add(f)
        return out

    rows = []
    setter_of = {}
    for cb, nms in instr.items():
        for k in fa.summ[cb][1]:
            setter_of.setdefault(base_of(k), set()).update(nms)
    for var in sorted(set(names) | {v for v in fa.shared if any(base_of(k) == v for k in all_w)}):
        local_name = var.split("::")[-1]
        wkeys = {k for k in stmt_w if base_of(k) == var}
        anyw = {k for k in all_w if base_of(k) == var}
        rule = ""
        pkeys = set()
        if not wkeys:
            cls = "config"
        else:
            for mode in MODES:
                ue = {k for k in ue_of[mode] if base_of(k) == var}
                pk = {k for k in wkeys if not k.endswith("^") and any(overlaps(k, u) for u in ue)}
                if var + "^" in wkeys:
                    # the pointee is written while statements are decoded: harmless only if the pointer itself is scratch
                    ptr_scratch = var in wkeys and not any(overlaps(var, u) for u in ue)
                    if not ptr_scratch:
                        pk.add(var + "^")
                if mode == "strong":
                    pkeys = pk
                if not pk:
                    rule = mode
                    break
            cls = "persistent" if rule == "" else "scratch"
        row = dict(rule=rule, var=var, type=fa.types.get(var, ""), cls=cls, initPass=False, switchTo=False, keys=sorted(pkeys),
                   written=bool(anyw), shared=var in fa.shared, setters=sorted(setter_of.get(var, ()))[:40])
        if cls == "persistent":
            def cov(assigned, k):
                k = k[:-1] if k.endswith("^") else k
                k2 = k.replace(var, local_name, 1) if "::" in var else k
                if G.covers(assigned, k2):
                    return True
                # every element of a small array assigned one by one
                m = re.match(r"^(.*)\[\*\]$", k2)
                if m and fa.sizes.get(var) and m.group(1) == local_name:
                    return all("%s[%d]" % (local_name, i) in assigned for i in range(fa.sizes[var]))
                # a field / element key is covered when the whole object is
                cs = comps(k2)
                return any("".join(cs[:i]) in assigned for i in range(1, len(cs)))
            row["initPass"] = bool(init_roots) and all(cov(init_assigned, k) for k in pkeys)
            acc = accessors(var)
            rel = [f for f in switch_roots if sw_reach[f] & acc]
            row["switchFuncs"] = sorted(rel)
            row["switchTo"] = bool(rel) and all(all(cov(sw[f][0], k) for k in pkeys) for f in rel)
        rows.append(row)
    if os.environ.get("STATICS_WHY"):
        v = os.environ["STATICS_WHY"]
        for mode in MODES:
            print("== mode", mode, "roots exposing", v, ":", [r for r in stmt_roots + config_roots + sorted(init_roots) if r in summs[mode] and any(base_of(k) == v for k in summs[mode][r][0])])
            for f in order:
                ks = [k for k in summs[mode][f][0] if base_of(k) == v]
                if ks:
                    callees = sorted({_callee(n) for n in _walk(fa.funcs[f]) if n.get("kind") == "CallExpr" and _callee(n) in fa.funcs and any(base_of(k) == v for k in summs[mode][_callee(n)][0])})
                    print("   ", f, ks, "via", callees, "mustwrites", [k for k in summs[mode][f][2] if base_of(k) == v])
        print("stmt roots", stmt_roots, "inner hooks", fa.inner_hooks)
    return dict(file=fname, rows=rows, cpuNames=cpu_names, stmtRoots=stmt_roots, initProcs=sorted(init_roots), switchFuncs=sorted(switch_roots),
                nfuncs=len(fa.funcs), ncallbacks=len(fa.callbacks))


def reach_calls_only(fa, roots):
    seen, todo = set(), list(roots)
    while todo:
        f = todo.pop()
        if f in seen or f not in fa.funcs:
            continue
        seen.add(f)
        for n in _walk(fa.funcs[f]):
            if n.get("kind") == "CallExpr":
                cn = _callee(n)
                if cn in fa.funcs:
                    todo.append(cn)
    return seen


_LOC_CACHE = {}


def _locals(body):
    """names of the parameters-independent local (non-static) variables declared in a function body"""
    i = id(body)
    if i not in _LOC_CACHE:
        _LOC_CACHE[i] = {n["name"] for n in _walk(body) if n.get("kind") == "VarDecl" and n.get("storageClass") != "static" and "name" in n}
    return _LOC_CACHE[i]


def shared_names(bdir):
    """non-const file-scope variables codevars.c defines"""
    ast = json.loads(G._clang_json(bdir, os.path.join(common.REPO, "codevars.c")))
    out = []
    for d in ast.get("inner", []):
        if d.get("kind") == "VarDecl" and d.get("storageClass") != "extern" and not _is_const(d.get("type", {}).get("qualType", "")):
            out.append(d["name"])
    return sorted(set(out))


def _analyse_file(job):
    bdir, path, shared = job
    try:
        sys.setrecursionlimit(20000)
        return analyse_ast(json.loads(G._clang_json(bdir, path)), os.path.basename(path), set(shared))
    except ExtractError as ex:
        return dict(error=str(ex), file=os.path.basename(path))
    except RecursionError:
        return dict(error="recursion limit while walking %s" % path, file=os.path.basename(path))


def inventory(bdir, workers=8):
    """list of per-file dicts (sorted by file); cached per file by content hash"""
    cdir = os.path.join(common.SCRATCH_ROOT, "genstatics-cache")
    os.makedirs(cdir, exist_ok=True)
    h = hashlib.sha256()
    h.update((G._headers_hash(bdir) + "|" + ANALYZER_VERSION + "|" + G.ANALYZER_VERSION).encode())
    for own in (os.path.abspath(__file__), os.path.abspath(G.__file__), os.path.join(common.REPO, "codevars.c")):
        with open(own, "rb") as fh:
            h.update(hashlib.sha256(fh.read()).digest())
    hh = h.hexdigest()[:16]
    files = sorted(f for f in os.listdir(common.REPO) if re.match(r"^code.*\.c$", f))
    if len(files) < 50:
        raise ExtractError("only %d code*.c files found" % len(files))
    out, jobs = {}, []
    for f in files:
        p = os.path.join(common.REPO, f)
        with open(p, "rb") as fh:
            key = hashlib.sha256(fh.read()).hexdigest()[:16]
        cp = os.path.join(cdir, "%s-%s-%s.json" % (f, key, hh))
        if os.path.exists(cp):
            try:
                out[f] = json.load(open(cp))
                continue
            except Exception:
                pass
        jobs.append((f, p, cp))
    if jobs:
        shared = shared_names(bdir)
        with concurrent.futures.ProcessPoolExecutor(max_workers=workers) as ex:
            for (f, p, cp), g in zip(jobs, ex.map(_analyse_file, [(bdir, p, shared) for (_f, p, _c) in jobs])):
                if "error" in g:
                    raise ExtractError(g["error"])
                tmp = cp + ".tmp%d" % os.getpid()
                with open(tmp, "w") as fh:
                    json.dump(g, fh)
                os.replace(tmp, cp)
                out[f] = g
        for f, p, cp in jobs:
            for n in os.listdir(cdir):
                if n.startswith(f + "-") and os.path.join(cdir, n) != cp:
                    try:
                        os.unlink(os.path.join(cdir, n))
                    except OSError:
                        pass
    return [out[f] for f in files]


def joined_rows(bdir):
    """rows of all files, joined with the statement-settable variables of GenState (ASSUME / ON-OFF / CPU-argument variables are
    written by the core through the address the generator hands over, which this analysis sees only as an address-of):
    such a variable is `persistent`, with GenState's reset flags"""
    gens = inventory(bdir)
    sgens, _core = G.inventory(bdir)
    settable = {}
    for g in sgens:
        for v in g["vars"]:
            base = re.split(r"[\[.]", v["var"])[0]
            settable.setdefault((g["file"], base), []).append(v)
    out = []
    for g in gens:
        rows = []
        for r in g["rows"]:
            q = dict(file=g["file"], var=r["var"], cls=r["cls"], rule=r["rule"], initPass=bool(r["initPass"]), switchTo=bool(r["switchTo"]),
                     corePass=False, coreCpu=False, setters=r.get("setters", []), settable=False, keys=r.get("keys", []), type=r.get("type", ""))
            vs = settable.get((g["file"], r["var"]))
            if vs:
                q["settable"] = True
                gs_init = all(v["initPass"] for v in vs)
                gs_sw = all(v["switchTo"] for v in vs)
                if q["cls"] != "persistent":
                    q["cls"], q["rule"] = "persistent", ""
                    q["initPass"], q["switchTo"] = gs_init, gs_sw
                else:
                    q["initPass"], q["switchTo"] = q["initPass"] and gs_init, q["switchTo"] and gs_sw
                q["corePass"] = all(v["core"] and v["kind"] != "cpuarg" for v in vs)
                q["coreCpu"] = all(v["core"] and v["kind"] == "cpuarg" for v in vs)
            rows.append(q)
        out.append(dict(file=g["file"], rows=rows, cpuNames=g["cpuNames"], initProcs=g["initProcs"], switchFuncs=g["switchFuncs"]))
    return out


def _ls(s):
    return '"' + str(s).replace("\\", "\\\\").replace('"', '\\"') + '"'


def _lb(b):
    return "true" if b else "false"


def gen_genstatics(bdir, write_if_changed, hdr):
    gens = joined_rows(bdir)
    n = sum(len(g["rows"]) for g in gens)
    if n < 300 or len(gens) < 50:
        raise ExtractError("inventory of the statics of the code generators looks empty (%d rows in %d files)" % (n, len(gens)))
    L = [hdr, "namespace AslModel.Generated.GenStatics\n",
         "/-- how a file-scope variable of a code generator is used while statements are decoded (translate/statics.py) -/",
         "inductive Cls where\n  | scratch\n  | config\n  | persistent\nderiving Repr, DecidableEq, Inhabited\n",
         "/-- one non-const file-scope / function-static variable of a code*.c: class, and for `persistent` ones where it is given a fresh value:\n"
         "    `initPass` by a procedure registered with AddInitPassProc, `switchTo` by every SwitchTo_* from which an access is reachable,\n"
         "    `corePass` / `coreCpu` by the core (AssembleFile_InitPass / the CPU-argument default loop), as in GenState;\n"
         "    `settable`: a row of GenState (ASSUME / ON-OFF / CPU-argument variable the core writes through an address the generator hands over) -/",
         "structure Row where\n  file : String\n  var : String\n  cls : Cls\n  initPass : Bool\n  switchTo : Bool\n  corePass : Bool\n  coreCpu : Bool\n  settable : Bool\nderiving Repr, DecidableEq, Inhabited\n"]
    names = []
    for g in gens:
        nm = "rows_" + re.sub(r"[^A-Za-z0-9]", "_", g["file"][:-2])
        names.append(nm)
        body = ",\n".join("  ⟨%s, %s, .%s, %s, %s, %s, %s, %s⟩" % (_ls(r["file"]), _ls(r["var"]), r["cls"], _lb(r["initPass"]), _lb(r["switchTo"]), _lb(r["corePass"]), _lb(r["coreCpu"]), _lb(r["settable"]))
                          for r in g["rows"])
        L.append("def %s : List Row := [\n%s]\n" % (nm, body))
    L.append("/-- all rows, file by file -/")
    # right-nested: the kernel reaches every element in constant time (a left-nested chain costs one descent per element)
    L.append("def rows : List Row :=\n  " + " ++ (\n  ".join(names) + ")" * (len(names) - 1) + "\n")
    L.append("/-- every code*.c that was analysed, with the number of its statement entry points' files rows -/")
    L.append("def files : List (String × Nat) := [\n" + ",\n".join("  (%s, %d)" % (_ls(g["file"]), len(g["rows"])) for g in gens) + "]\n")
    L.append("end AslModel.Generated.GenStatics\n")
    return write_if_changed("GenStatics.lean", "\n".join(L))


if __name__ == "__main__":
    import time
    bd = common.repo_build("hooks")
    t0 = time.time()
    if len(sys.argv) > 1 and sys.argv[1].endswith(".c"):
        g = _analyse_file((bd, os.path.join(common.REPO, sys.argv[1]), shared_names(bd)))
        if "error" in g:
            print(g)
            sys.exit(1)
        gens = [g]
    else:
        gens = inventory(bd)
    if os.environ.get("STATICS_DUMP"):
        json.dump(gens, open(os.environ["STATICS_DUMP"], "w"), indent=1)
    cnt = {}
    for g in gens:
        for r in g["rows"]:
            cnt[r["cls"] + ":" + r["rule"]] = cnt.get(r["cls"] + ":" + r["rule"], 0) + 1
            if r["cls"] == "persistent" or len(gens) == 1:
                ok = r["initPass"] or r["switchTo"]
                print("%-14s %-28s %-10s %-6s init=%d sw=%d %s %s %s" % (g["file"], r["var"], r["cls"], r["rule"], r["initPass"], r["switchTo"],
                                                                 "" if ok or r["cls"] != "persistent" else "<== NOT RESET", ",".join(r["keys"])[:60], ",".join(r["setters"])[:50]))
    print(cnt, "%.1fs" % (time.time() - t0))
