"""State that survives a target selection / a pass and is not in the older C18 inventories (Generated/GenCarry.lean).

Two tables, both regenerated from the clang-14 JSON AST of the current sources on every run:

(a) `switchLeftovers` - core globals (declared `extern` in a header, defined outside the code generator) that SOME switch
    function (`SwitchTo_*`, second argument of AddCPU*; transitively through functions of the same file) may assign and ANOTHER
    does not: "state a target selection leaves behind that the next selection must undo".  Flag: `SetCPUCore` (asmallg.c, with
    the functions of asmallg.c it calls) assigns it.  Globals every switch function assigns are the business of
    translate/targetdesc.py (`SCALARS`, the per-segment arrays) and are no rows here.

(b) `coreStatics` - every file-scope variable DEFINED in a core module (CORE_FILES; `static` or not) and every function-static
    variable there that some function writes which is neither a reset function nor runs only at program start.  Flags:
    assigned on the per-pass path (AssembleFile_InitPass, AsmSubPassInit, AsmErrPassInit, the procedures registered with
    AddInitPassProc, AssembleFile_ExitPass; followed across the core modules, see FOLLOW_RE), assigned on the per-file path
    (AsmDefInit, AsmParsInit, AsmIFInit, InitFileList, the body of AssembleFile).

Both are syntactic may-assign inventories: an assignment (`=`, or memset / strcpy / strmaxcpy / memcpy into the object,
`*p = ..` for a pointer variable p counts for p's object) anywhere in the function counts.  To keep "is assigned on the reset
path" meaningful the reset closure follows a call only into functions whose NAME says that they initialise / clear
(FOLLOW_RE) - it does not follow `EnterIntSymbol`, `AddFile`, ... into the symbol-table code, where nearly every variable of
asmpars.c is assigned somewhere.
"""
import concurrent.futures
import hashlib
import json
import os
import re
import sys

sys.path.insert(0, os.path.dirname(os.path.dirname(os.path.abspath(__file__))))
from vlib import common
from translate import globals as G

ANALYZER_VERSION = "4"

CORE_FILES = ["as.c", "asmallg.c", "asmcode.c", "asmdebug.c", "asmdef.c", "asmerr.c", "asmfnums.c", "asmif.c", "asminclist.c", "asmitree.c",
              "asmlabel.c", "asmlist.c", "asmmac.c", "asmpars.c", "asmrelocs.c", "asmstructs.c", "asmsub.c"]
PASS_ROOTS = ["AssembleFile_InitPass", "AsmSubPassInit", "AsmErrPassInit", "AssembleFile_ExitPass"]
FILE_ROOTS = ["AsmDefInit", "AsmParsInit", "AsmIFInit", "InitFileList", "AssembleFile"]
# a call on the reset path is followed only into functions whose name says they reset
FOLLOW_RE = re.compile(r"(Init|Reset|Clear|Free|Destroy|Unset|SetCPU|PassExit|CleanUp|ClearUp)")
# functions that run once per process (module initialisers, command-line callbacks, main): what only they write is configuration
STARTUP_RE = re.compile(r"(^main$|_init$|^CMD_|^ParamProc|^ProcessFile$|^ProcessSingle)")
WRITER_CALLS = {"memset": 0, "memcpy": 0, "memmove": 0, "strcpy": 0, "strncpy": 0, "strmaxcpy": 0, "as_snprintf": 0, "sprintf": 0, "SetFlag": 0,
                "StrCompMkTemp": 1, "as_dynstr_ini": 0, "as_dynstr_free": 0}
TD_NAMES = {"Grans", "ListGrans", "SegInits", "SegLimits", "ValidSegs", "HeaderID", "NOPCode", "PCSymbol", "DivideChars", "HasAttrs", "TurnWords", "MakeCode", "IsDef",
            "SwitchFrom"}
ExtractError = G.ExtractError
_unwrap, _walk, _callee = G._unwrap, G._walk, G._callee


def _base(n):
    """(name, id) of the variable whose object an lvalue / pointer expression denotes: V, V[i], V.f, V->f, *V, &V, V + i"""
    n = _unwrap(n)
    while True:
        k = n.get("kind")
        if k == "DeclRefExpr":
            rd = n.get("referencedDecl", {})
            if rd.get("kind") == "VarDecl":
                return rd.get("name"), rd.get("id")
            return None
        if k in ("ArraySubscriptExpr", "MemberExpr") or (k == "UnaryOperator" and n.get("opcode") in ("*", "&")) or \
           (k == "BinaryOperator" and n.get("opcode") in ("+", "-")):
            inner = [c for c in n.get("inner", []) if isinstance(c, dict)]
            if not inner:
                return None
            n = _unwrap(inner[0])
            continue
        return None


def _is_const(qt):
    qt = qt.strip()
    if "*" in qt:
        return qt.rsplit("*", 1)[1].strip().startswith("const")
    return bool(re.search(r"\bconst\b", qt))


def _effects(body, local_ids):
    """(plain-assigned names, written names, callee names, names of functions passed to AddInitPassProc) of a function body;
    variables local to the function (ids in local_ids) are left out"""
    assigned, written, calls, regs = set(), set(), set(), set()

    def note(dst, expr):
        b = _base(expr)
        if b and b[1] not in local_ids:
            dst.add(b[0])
    for n in _walk(body):
        k = n.get("kind")
        if k == "BinaryOperator" and n.get("opcode") == "=":
            note(assigned, n["inner"][0])
            note(written, n["inner"][0])
        elif k == "CompoundAssignOperator":
            note(written, n["inner"][0])
        elif k == "UnaryOperator" and n.get("opcode") in ("++", "--"):
            note(written, n["inner"][0])
        elif k == "CallExpr":
            cn = _callee(n)
            if not cn:
                continue
            calls.add(cn)
            args = n["inner"][1:]
            if cn in WRITER_CALLS and len(args) > WRITER_CALLS[cn]:
                note(assigned, args[WRITER_CALLS[cn]])
                note(written, args[WRITER_CALLS[cn]])
            if cn == "AddInitPassProc" and args:
                a = _unwrap(args[0])
                if a.get("kind") == "DeclRefExpr":
                    regs.add(a["referencedDecl"]["name"])
    return assigned, written, calls, regs


def _local_ids(fdecl):
    ids, statics = set(), []
    for n in _walk(fdecl):
        if n.get("kind") in ("VarDecl", "ParmVarDecl"):
            if n.get("kind") == "VarDecl" and n.get("storageClass") == "static":
                statics.append(n)
            else:
                ids.add(n.get("id"))
    return ids, statics


def analyse_core(ast, fname):
    gvars, funcs = {}, {}
    for d in ast.get("inner", []):
        if d.get("kind") == "VarDecl" and d.get("storageClass") != "extern":
            qt = d.get("type", {}).get("qualType", "")
            if not _is_const(qt):
                gvars[d["name"]] = dict(static=d.get("storageClass") == "static", type=qt)
        elif d.get("kind") == "FunctionDecl":
            body = [c for c in d.get("inner", []) if c.get("kind") == "CompoundStmt"]
            if not body:
                continue
            loc, fst = _local_ids(d)
            a, w, c, r = _effects(body[0], loc)
            fs = []
            for s in fst:
                if not _is_const(s.get("type", {}).get("qualType", "")):
                    fs.append(s["name"])
            funcs[d["name"]] = dict(static=d.get("storageClass") == "static", assigned=sorted(a), written=sorted(w), calls=sorted(c), regs=sorted(r), fstatics=fs)
    return dict(file=fname, vars=gvars, funcs=funcs)


def analyse_gen(ast, fname):
    """switch functions of a code generator with the extern globals they may assign"""
    externs, funcs, fdecl = set(), {}, {}
    for d in ast.get("inner", []):
        if d.get("kind") == "VarDecl":
            if d.get("storageClass") == "extern":
                externs.add(d["name"])
            else:
                externs.discard(d["name"])
        elif d.get("kind") == "FunctionDecl":
            body = [c for c in d.get("inner", []) if c.get("kind") == "CompoundStmt"]
            if body:
                funcs[d["name"]] = body[0]
                fdecl[d["name"]] = d
    # a later definition in the file makes the name the generator's own
    own = {d["name"] for d in ast.get("inner", []) if d.get("kind") == "VarDecl" and d.get("storageClass") != "extern"}
    externs -= own
    sw = set()
    for fn, body in funcs.items():
        for n in _walk(body):
            if n.get("kind") == "CallExpr" and _callee(n) in ("AddCPUWithArgs", "AddCPUUserWithArgs") and len(n["inner"]) >= 3:
                a = _unwrap(n["inner"][2])
                if a.get("kind") == "DeclRefExpr":
                    sw.add(a["referencedDecl"]["name"])
    eff = {}
    for fn, body in funcs.items():
        loc, _s = _local_ids(fdecl[fn])
        a, _w, c, _r = _effects(body, loc)
        eff[fn] = (a, c)
    out = {}
    for s in sorted(sw):
        if s not in funcs:
            continue
        seen, todo, asg = set(), [s], set()
        while todo:
            x = todo.pop()
            if x in seen:
                continue
            seen.add(x)
            asg |= eff[x][0]
            todo += [y for y in eff[x][1] if y in funcs]
        out[s] = sorted(v for v in asg if v in externs)
    return dict(file=fname, switch=out)


def _job(job):
    bdir, path, kind = job
    try:
        sys.setrecursionlimit(20000)
        ast = json.loads(G._clang_json(bdir, path))
        return analyse_core(ast, os.path.basename(path)) if kind == "core" else analyse_gen(ast, os.path.basename(path))
    except ExtractError as ex:
        return dict(error=str(ex), file=os.path.basename(path))
    except RecursionError:
        return dict(error="recursion limit while walking %s" % path, file=os.path.basename(path))


def _cached(bdir, files, kind, workers=6):
    cdir = os.path.join(common.SCRATCH_ROOT, "carry-cache")
    os.makedirs(cdir, exist_ok=True)
    h = hashlib.sha256()
    h.update((G._headers_hash(bdir) + "|" + ANALYZER_VERSION).encode())
    with open(os.path.abspath(__file__), "rb") as fh:
        h.update(hashlib.sha256(fh.read()).digest())
    hh = h.hexdigest()[:16]
    out, jobs = {}, []
    for f in files:
        p = os.path.join(common.REPO, f)
        if not os.path.exists(p):
            raise ExtractError("core module %s not found" % f)
        with open(p, "rb") as fh:
            key = hashlib.sha256(fh.read()).hexdigest()[:16]
        cp = os.path.join(cdir, "%s-%s-%s-%s.json" % (kind, f, key, hh))
        if os.path.exists(cp):
            try:
                out[f] = json.load(open(cp))
                continue
            except Exception:
                pass
        jobs.append((f, p, cp))
    if jobs:
        with concurrent.futures.ProcessPoolExecutor(max_workers=workers) as ex:
            for (f, p, cp), g in zip(jobs, ex.map(_job, [(bdir, p, kind) for (_f, p, _c) in jobs])):
                if "error" in g:
                    raise ExtractError(g["error"])
                tmp = cp + ".tmp%d" % os.getpid()
                with open(tmp, "w") as fh:
                    json.dump(g, fh)
                os.replace(tmp, cp)
                out[f] = g
                for n in os.listdir(cdir):
                    if n.startswith("%s-%s-" % (kind, f)) and os.path.join(cdir, n) != cp:
                        try:
                            os.unlink(os.path.join(cdir, n))
                        except OSError:
                            pass
    return [out[f] for f in files]


_MEMO = {}


def inventory(bdir):
    if bdir not in _MEMO:
        _MEMO[bdir] = _inventory(bdir)
    return _MEMO[bdir]


def _inventory(bdir):
    core = _cached(bdir, CORE_FILES, "core")
    gfiles = sorted(f for f in os.listdir(common.REPO) if re.match(r"^code.*\.c$", f))
    if len(gfiles) < 50:
        raise ExtractError("only %d code*.c files found" % len(gfiles))
    gens = _cached(bdir, gfiles, "gen")

    # ---- function table of the core, calls resolved: same file first, else the non-static definition
    ftab = {}
    for m in core:
        for fn, f in m["funcs"].items():
            ftab[(m["file"], fn)] = f
    glob = {}
    for (file, fn), f in ftab.items():
        if not f["static"]:
            glob.setdefault(fn, file)

    def resolve(file, cn):
        if (file, cn) in ftab:
            return (file, cn)
        if cn in glob:
            return (glob[cn], cn)
        return None
    regs = set()
    for (file, fn), f in ftab.items():
        for r in f["regs"]:
            x = resolve(file, r)
            if x:
                regs.add(x)

    def closure(roots, follow_all=()):
        """functions on a reset path: the roots, the reset-named functions they call (transitively), and - for the roots in
        `follow_all` (AssembleFile_InitPass, whose whole body is initialisation) - every function the root calls directly"""
        seen = {}
        todo = [(r, 0) for r in roots]
        while todo:
            x, d = todo.pop()
            if x in seen and seen[x] <= d:
                continue
            seen[x] = d
            for cn in ftab[x]["calls"]:
                y = resolve(x[0], cn)
                if y and (FOLLOW_RE.search(cn) or (d == 0 and x in follow_all)):
                    todo.append((y, d + 1))
        return set(seen)
    proots = [x for x in (resolve("as.c", r) for r in PASS_ROOTS) if x] + sorted(regs)
    froots = [x for x in (resolve("as.c", r) for r in FILE_ROOTS) if x]
    if len(proots) < len(PASS_ROOTS) or len(froots) < len(FILE_ROOTS):
        raise ExtractError("carry: reset roots not found (%s / %s)" % (proots, froots))
    ipass = resolve("as.c", "AssembleFile_InitPass")
    pfun, ffun = closure(proots, (ipass,)), closure(froots)
    if resolve("asmallg.c", "SetCPUCore") is None:
        raise ExtractError("carry: SetCPUCore not found in asmallg.c")
    cpufun = closure([resolve("asmallg.c", "SetCPUCore")])

    def owner(file, name):
        """the core module whose object `name` is, seen from a function of `file`"""
        for m in core:
            if m["file"] == file and name in m["vars"]:
                return file
        for m in core:
            if name in m["vars"] and not m["vars"][name]["static"]:
                return m["file"]
        return None

    def assigned_by(funs):
        s = set()
        for x in funs:
            for v in ftab[x]["assigned"]:
                o = owner(x[0], v)
                if o:
                    s.add((o, v))
            for v in ftab[x]["fstatics"]:
                pass
        return s
    pasg, fasg, casg = assigned_by(pfun), assigned_by(ffun), assigned_by(cpufun)
    # by name, for globals whose defining module is not a core module (intformat.c, operator.c ...): header-declared names are unique
    cnames = {v for x in cpufun for v in ftab[x]["assigned"]}
    pnames = {v for x in pfun for v in ftab[x]["assigned"]}

    # ---- (b) rows
    writers = {}
    for x, f in ftab.items():
        for v in f["written"]:
            if v in f["fstatics"]:
                writers.setdefault((x[0], "%s::%s" % (x[1], v)), set()).add(x)
                continue
            o = owner(x[0], v)
            if o:
                writers.setdefault((o, v), set()).add(x)
    rows = []
    for (file, var), ws in sorted(writers.items()):
        live = sorted(w for w in ws if w not in pfun and w not in ffun and not STARTUP_RE.search(w[1]))
        if not live:
            continue
        rows.append(dict(file=file, var=var, perPass=(file, var) in pasg, perFile=(file, var) in fasg, perCPU=(file, var) in casg,
                         writers=["%s:%s" % w for w in live][:4], nwriters=len(live)))
    # ---- (a) rows
    sw = {}
    for g in gens:
        for fn, vs in g["switch"].items():
            sw[(g["file"], fn)] = set(vs)
    if len(sw) < 50:
        raise ExtractError("carry: only %d switch functions found" % len(sw))
    allv = set().union(*sw.values())
    left = []
    for v in sorted(allv):
        setters = sorted(k for k, vs in sw.items() if v in vs)
        if len(setters) == len(sw):
            continue
        if v in TD_NAMES:
            continue          # per-segment arrays / scalars of the target description: translate/targetdesc.py, Props/C18_TargetDesc.lean
        o = owner("asmallg.c", v)
        left.append(dict(var=v, setters=["%s:%s" % k for k in setters], nsetters=len(setters), nfuncs=len(sw),
                         setCPUCore=v in cnames, perPass=v in pnames, owner=o or "(not a core module)"))
    return dict(rows=rows, leftovers=left, passFuncs=sorted("%s:%s" % x for x in pfun), fileFuncs=sorted("%s:%s" % x for x in ffun),
                cpuFuncs=sorted("%s:%s" % x for x in cpufun), nswitch=len(sw))


def _ls(x):
    return '"' + str(x).replace("\\", "\\\\").replace('"', '\\"') + '"'


def _lb(b):
    return "true" if b else "false"


def gen_gencarry(bdir, write_if_changed, hdr):
    inv = inventory(bdir)
    if len(inv["rows"]) < 40 or len(inv["leftovers"]) < 5:
        raise ExtractError("carry inventory looks empty (%d core rows, %d leftovers)" % (len(inv["rows"]), len(inv["leftovers"])))
    L = [hdr, "namespace AslModel.Generated.Carry\n",
         "/-- a core global some switch function may assign and another does not (translate/carry.py): `setCPUCore` = SetCPUCore (asmallg.c, with the\n"
         "    reset-named functions it calls) assigns it; `perPass` = the per-pass path assigns it; `setters` of `funcs` switch functions assign it -/",
         "structure Leftover where\n  var : String\n  owner : String\n  setCPUCore : Bool\n  perPass : Bool\n  setters : Nat\n  funcs : Nat\n  setter : String\nderiving Repr, DecidableEq, Inhabited\n",
         "def switchLeftovers : List Leftover := ["]
    L.append(",\n".join("  ⟨%s, %s, %s, %s, %d, %d, %s⟩" % (_ls(r["var"]), _ls(r["owner"]), _lb(r["setCPUCore"]), _lb(r["perPass"]), r["nsetters"], r["nfuncs"], _ls(r["setters"][0]))
                        for r in inv["leftovers"]))
    L.append("]\n")
    L.append("/-- a variable defined in a core module that a function outside the reset paths and outside program start writes:\n"
             "    assigned on the per-pass path / the per-file path / by SetCPUCore? -/")
    L.append("structure CoreStatic where\n  file : String\n  var : String\n  perPass : Bool\n  perFile : Bool\n  perCPU : Bool\n  writer : String\nderiving Repr, DecidableEq, Inhabited\n")
    L.append("def coreStatics : List CoreStatic := [")
    L.append(",\n".join("  ⟨%s, %s, %s, %s, %s, %s⟩" % (_ls(r["file"]), _ls(r["var"]), _lb(r["perPass"]), _lb(r["perFile"]), _lb(r["perCPU"]), _ls(r["writers"][0])) for r in inv["rows"]))
    L.append("]\n")
    L.append("def coreModules : List String := [" + ", ".join(_ls(f) for f in CORE_FILES) + "]")
    L.append("def switchFunctions : Nat := %d" % inv["nswitch"])
    L.append("\nend AslModel.Generated.Carry\n")
    return write_if_changed("GenCarry.lean", "\n".join(L))


if __name__ == "__main__":
    import time
    bd = common.repo_build("hooks")
    t0 = time.time()
    inv = inventory(bd)
    for r in inv["leftovers"]:
        print("LEFT %-26s owner=%-10s core=%d pass=%d setters=%d/%d %s" % (r["var"], r["owner"], r["setCPUCore"], r["perPass"], r["nsetters"], r["nfuncs"], r["setters"][:2]))
    for r in inv["rows"]:
        print("ROW  %-12s %-34s pass=%d file=%d cpu=%d w=%d %s" % (r["file"], r["var"], r["perPass"], r["perFile"], r["perCPU"], r["nwriters"], r["writers"][:2]))
    print("pass:", inv["passFuncs"])
    print("file:", inv["fileFuncs"])
    print("cpu:", inv["cpuFuncs"])
    print(len(inv["rows"]), "rows", len(inv["leftovers"]), "leftovers", "%.1fs" % (time.time() - t0))
