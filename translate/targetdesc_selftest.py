"""Self-test of translate/targetdesc.py: the abstract interpretation must give the specified answers on a synthetic code generator
(one pattern per rule).  Run by the C18 check on every run; a wrong answer is reported like a broken proof."""
import json
import os
import subprocess
import sys
import tempfile

sys.path.insert(0, os.path.dirname(os.path.dirname(os.path.abspath(__file__))))
from translate import targetdesc as T

SRC = r"""
typedef enum { SegNone = 0, SegCode = 1, SegData = 2, SegIData = 3, SegXData = 4, SegYData = 5, SegBData = 6, SegIO = 7, SegReg = 8,
               SegRData = 9, SegEEData = 10, SegCount = 11, StructSeg = SegCount, SegCountPlusStruct = 12 } as_addrspace_t;
typedef unsigned short Word; typedef unsigned long LargeWord; typedef unsigned char Byte;
Word Grans[12], ListGrans[12]; LargeWord *SegInits, *SegLimits; long ValidSegs; Byte HeaderID; LargeWord NOPCode; char const *PCSymbol;
char const *DivideChars; int HasAttrs, TurnWords; void (*MakeCode)(void); int (*IsDef)(void); void (*SwitchFrom)(void); int (*ChkPC)(LargeWord);
int MomCPU; extern unsigned AddCPUWithArgs(char const *, void (*)(void), void const *);
static void mk(void) {} static int isdef(void) { return 0; } static void from(void) {} static int chk(LargeWord a) { return a < 5; }
static void Scalars(void) { HeaderID = 1; NOPCode = 0; PCSymbol = "$"; DivideChars = ","; HasAttrs = 0; TurnWords = 0; MakeCode = mk; IsDef = isdef; SwitchFrom = from; }
static void Code(void) { Grans[SegCode] = ListGrans[SegCode] = 1; SegInits[SegCode] = 0; SegLimits[SegCode] = 0xffff; }

static void SwitchTo_Straight(void) { Scalars(); ValidSegs = (1 << SegCode) | (1 << SegData); Code();
  Grans[SegData] = 1; ListGrans[SegData] = 1; SegInits[SegData] = 0x30; SegLimits[SegData] = 0xff; }
static void SwitchTo_Slip(void) { Scalars(); ValidSegs = (1 << SegCode) + (1 << SegData); Code();
  Grans[SegData] = 1; ListGrans[SegData] = 1; SegInits[SegCode] = 0; SegLimits[SegData] = 0xff; }
static void SwitchTo_Chain(void) { Scalars(); ValidSegs = 1 << SegCode; Grans[SegCode] = ListGrans[SegCode] = 1; SegInits[SegCode] = 0;
  if (MomCPU == 1) SegLimits[SegCode] = 1; else if (MomCPU == 2) SegLimits[SegCode] = 2; }
static void SwitchTo_ChainElse(void) { Scalars(); ValidSegs = 1 << SegCode; Grans[SegCode] = ListGrans[SegCode] = 1; SegInits[SegCode] = 0;
  if (MomCPU == 1) SegLimits[SegCode] = 1; else if (MomCPU == 2) SegLimits[SegCode] = 2; else SegLimits[SegCode] = 3; }
static void Describe(as_addrspace_t Seg, Word Gran, LargeWord Limit) { ValidSegs |= 1 << Seg; Grans[Seg] = ListGrans[Seg] = Gran; SegInits[Seg] = 0; SegLimits[Seg] = Limit; }
static void SwitchTo_Helper(void) { Scalars(); ValidSegs = 0; Describe(SegCode, 2, 0xfff); Describe(SegIO, 1, 0xff); }
static void SwitchTo_Loop(void) { int s; Scalars(); ValidSegs = (1 << SegCode) | (1 << SegData) | (1 << SegIData);
  for (s = SegCode; s <= SegIData; s++) { Grans[s] = 1; ListGrans[s] = 1; SegInits[s] = 0; SegLimits[s] = 0xff; } }
static void SwitchTo_EarlyReturn(void) { Scalars(); ValidSegs = 1 << SegCode; Grans[SegCode] = ListGrans[SegCode] = 1; SegLimits[SegCode] = 9;
  if (MomCPU == 3) return; SegInits[SegCode] = 0; }
static void SwitchTo_CondSeg(void) { Scalars(); ValidSegs = 1 << SegCode; Code();
  if (MomCPU == 4) { ValidSegs |= 1 << SegXData; Grans[SegXData] = ListGrans[SegXData] = 1; SegInits[SegXData] = 0; SegLimits[SegXData] = 0xffff; } }
static void SwitchTo_CondSegSplit(void) { Scalars(); ValidSegs = 1 << SegCode; Code();
  if (MomCPU == 4) ValidSegs |= 1 << SegXData;
  if (MomCPU == 4) { Grans[SegXData] = ListGrans[SegXData] = 1; SegInits[SegXData] = 0; SegLimits[SegXData] = 0xffff; } }
static void SwitchTo_Switch(void) { Scalars(); ValidSegs = 1 << SegCode; Grans[SegCode] = ListGrans[SegCode] = 1; SegLimits[SegCode] = 9;
  switch (MomCPU) { case 1: SegInits[SegCode] = 0x800; break; case 2: SegInits[SegCode] = 0xc00; break; } }
static void SwitchTo_SwitchDefault(void) { Scalars(); ValidSegs = 1 << SegCode; Grans[SegCode] = ListGrans[SegCode] = 1; SegLimits[SegCode] = 9;
  switch (MomCPU) { case 1: SegInits[SegCode] = 0x800; break; case 2: default: SegInits[SegCode] = 0xc00; break; } }
static void SwitchTo_OwnChk(void) { Scalars(); ValidSegs = 1 << SegCode; Grans[SegCode] = ListGrans[SegCode] = 1; SegInits[SegCode] = 0; ChkPC = chk; }
static void SwitchTo_NoHeader(void) { ValidSegs = 1 << SegCode; Code(); NOPCode = 0; PCSymbol = "$"; DivideChars = ","; HasAttrs = 0; TurnWords = 0; MakeCode = mk; IsDef = isdef; SwitchFrom = from; }
static void SwitchTo_WhileLoop(void) { int n = MomCPU; Scalars(); ValidSegs = 1 << SegCode; Grans[SegCode] = ListGrans[SegCode] = 1; SegLimits[SegCode] = 9;
  while (n--) SegInits[SegCode] = 0; }
void codetest_init(void) {
  AddCPUWithArgs("A", SwitchTo_Straight, 0); AddCPUWithArgs("B", SwitchTo_Slip, 0); AddCPUWithArgs("C", SwitchTo_Chain, 0); AddCPUWithArgs("D", SwitchTo_ChainElse, 0);
  AddCPUWithArgs("E", SwitchTo_Helper, 0); AddCPUWithArgs("F", SwitchTo_Loop, 0); AddCPUWithArgs("G", SwitchTo_EarlyReturn, 0); AddCPUWithArgs("H", SwitchTo_CondSeg, 0);
  AddCPUWithArgs("I", SwitchTo_CondSegSplit, 0); AddCPUWithArgs("J", SwitchTo_Switch, 0); AddCPUWithArgs("K", SwitchTo_SwitchDefault, 0); AddCPUWithArgs("L", SwitchTo_OwnChk, 0);
  AddCPUWithArgs("M", SwitchTo_NoHeader, 0); AddCPUWithArgs("N", SwitchTo_WhileLoop, 0);
}
"""

# function -> {segment: (Grans, ListGrans, SegInits, SegLimits)}, plus scalar / flag expectations
EXPECT = {
    "SwitchTo_Straight": {1: (1, 1, 1, 1), 2: (1, 1, 1, 1)},
    "SwitchTo_Slip": {1: (1, 1, 1, 1), 2: (1, 1, 0, 1)},
    "SwitchTo_Chain": {1: (1, 1, 1, 0)},
    "SwitchTo_ChainElse": {1: (1, 1, 1, 1)},
    "SwitchTo_Helper": {1: (1, 1, 1, 1), 7: (1, 1, 1, 1)},
    "SwitchTo_Loop": {1: (1, 1, 1, 1), 2: (1, 1, 1, 1), 3: (1, 1, 1, 1)},
    "SwitchTo_EarlyReturn": {1: (1, 1, 0, 1)},
    "SwitchTo_CondSeg": {1: (1, 1, 1, 1), 4: (1, 1, 1, 1)},
    "SwitchTo_CondSegSplit": {1: (1, 1, 1, 1), 4: (0, 0, 0, 0)},
    "SwitchTo_Switch": {1: (1, 1, 0, 1)},
    "SwitchTo_SwitchDefault": {1: (1, 1, 1, 1)},
    "SwitchTo_OwnChk": {1: (1, 1, 1, 0)},
    "SwitchTo_NoHeader": {1: (1, 1, 1, 1)},
    "SwitchTo_WhileLoop": {1: (1, 1, 0, 1)},
}
EXPECT_FLAGS = {"SwitchTo_OwnChk": dict(ownChkPC=True), "SwitchTo_Straight": dict(ownChkPC=False), "SwitchTo_NoHeader": dict(scalar_missing=["HeaderID"])}


def run():
    """list of discrepancies (empty = the analyser behaves as specified)"""
    with tempfile.TemporaryDirectory(prefix="tdself", dir=os.environ.get("VERIF_SCRATCH") or None) as td:
        cf = os.path.join(td, "codetest.c")
        open(cf, "w").write(SRC)
        r = subprocess.run(["clang-14", "-std=gnu11", "-w", "-fsyntax-only", "-Xclang", "-ast-dump=json", cf], stdout=subprocess.PIPE, stderr=subprocess.PIPE)
        if r.returncode != 0:
            return ["clang-14 cannot parse the synthetic generator: " + r.stderr.decode(errors="replace")[-400:]]
        try:
            g = T.analyse_ast(json.loads(r.stdout.decode(errors="replace")), "codetest.c")
        except T.ExtractError as ex:
            return ["analyse_ast raised: " + str(ex)]
    got = {f["func"]: f for f in g["funcs"]}
    wrong = []
    for fn, segs in EXPECT.items():
        f = got.get(fn)
        if f is None:
            wrong.append("%s: not recognised as a switch function" % fn)
            continue
        have = {r["seg"]: tuple(int(bool(r[a])) for a in T.ARRAYS) for r in f["segs"]}
        if have != segs:
            wrong.append("%s: %s, specified %s" % (fn, have, segs))
        ex = EXPECT_FLAGS.get(fn, {})
        if "ownChkPC" in ex and bool(f["ownChkPC"]) != ex["ownChkPC"]:
            wrong.append("%s: ownChkPC %s" % (fn, f["ownChkPC"]))
        miss = sorted(k for k, v in f["scalars"].items() if not v)
        if miss != sorted(ex.get("scalar_missing", [])):
            wrong.append("%s: scalars not on every path %s, specified %s" % (fn, miss, ex.get("scalar_missing", [])))
    return wrong


if __name__ == "__main__":
    w = run()
    print("ok: %d patterns" % len(EXPECT) if not w else "\n".join(w))
    sys.exit(1 if w else 0)
