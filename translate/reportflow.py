"""Information-flow inventory for property C17 (report options never alter the code file).

Source: clang-14's JSON AST of every translation unit that is linked into `asl` (the object list of the current build:
as.c, asm*.c, strutil.c, cmdarg.c, trees.c, chunks.c, ..., all code*.c).  Typed AST, not text: renaming a local,
re-ordering independent statements, re-formatting and comments do not change the result.

What is computed (see DESIGN.md 4.17 / Props/C17_Flow.lean):

 1. `reportOptions`: for every row of `ASParams[]` (as.c) whose switch the property lists as report-only
    (`reportOptionNames` of lean/AslModel/Spec/ReportObjects.lean) the handler and the file-scope variables the handler
    assigns, directly or through callees = the *report variables*.
 2. a flow-insensitive, syntactic taint analysis with the report variables as roots:
      * a local variable is tainted when it is assigned a tainted value or assigned under a tainted condition
        (conditions of if / loops / switch / ?: / the left operand of && and ||),
      * a function's result (return value and memory written through its pointer parameters) is tainted likewise and
        taints its call sites; a tainted argument taints the callee's parameter (context-insensitive) and, at the call
        site, whatever the callee writes through its other pointer arguments and the streams it was handed,
      * a global object / record field (`h:Rec.field`, keyed by record type) / stream / file operation that receives a
        tainted value or is written under a tainted condition is a ROW of the inventory (`value-flows` /
        `guards-write`); it is tracked further (its readers are inventoried too) exactly when the hand-written seed
        list classifies it as a report object,
      * a call under a tainted condition contributes the transitive writes of the callee (`via` = the callee;
        functions handed over as arguments count as called from there),
      * a `return`/`goto`/`exit()` under a tainted condition makes every later event of the function (and the
        enclosing loops) control dependent, `break`/`continue` the enclosing loop / the rest of the switch,
      * a function in which a tracked object is read but no object is reached is kept as a `report-only` row.
    Seed-list controls: `collapsedCalls` (message emitters: a call is ONE object `call:<f>`), `summarisedFunctions`
    (the printf core, treated like sprintf), `cutResults` ((variable, function): the result of the function is not
    followed for that variable – the use is one row `fn:<f>` that needs an exception), `ownedRecords` (value records
    attributed to the object that contains them), `assertingFunctions` (their exit()/abort() are consistency checks).
 3. nothing is classified here: Props/C17_Flow.lean joins the rows with the seed list and the listed exceptions, so
    an object that nobody classified fails the obligation.

Limits (stated in the evidence): syntactic and flow-insensitive; calls through function pointers are resolved by the
name of the pointer variable / record field (every function ever stored there) or, for a function passed as an
argument, at that call site; pointer aliasing is followed only through local pointer variables and pointer
parameters; heap objects are keyed by record type and field; `setjmp`, signal handlers and varargs access are not
modelled; libc is modelled by a small table; the build configuration in use decides which `#if` branches are seen.

The per-file summary is cached under VERIF_SCRATCH keyed by the content hash of the file, of all headers and of this
analyser; the whole result is cached keyed by all of these plus the seed list.
"""
import concurrent.futures
import hashlib
import json
import os
import re
import sys

sys.path.insert(0, os.path.dirname(os.path.dirname(os.path.abspath(__file__))))
from vlib import common
from translate import globals as _g

with open(os.path.abspath(__file__), "rb") as _fh:
    ANALYZER_VERSION = "rf-" + hashlib.sha256(_fh.read()).hexdigest()[:12]     # any edit of the analyser invalidates the caches
ExtractError = _g.ExtractError

MAX_ROWS = 12000
SEED_FILE = os.path.join(common.LEAN_DIR, "AslModel", "Spec", "ReportObjects.lean")

# ------------------------------------------------------------------------------------------------
# libc model: parameters written through (`out`), stream parameter (`io`), does not return (`noret`)
LIBC_OUT = {
    "strcpy": [0], "strncpy": [0], "strcat": [0], "strncat": [0], "memcpy": [0], "memmove": [0], "memset": [0],
    "sprintf": [0], "snprintf": [0], "vsprintf": [0], "vsnprintf": [0], "fgets": [0], "fread": [0], "sscanf": None,
    "strtol": [1], "strtoul": [1], "strtod": [1], "getcwd": [0], "time": [0], "frexp": [1], "modf": [1], "qsort": [0],
    "__builtin___strcpy_chk": [0], "__builtin___memcpy_chk": [0], "__builtin___sprintf_chk": [0],
}
LIBC_IO = {"fprintf": 0, "vfprintf": 0, "fputs": 1, "fputc": 1, "putc": 1, "fwrite": 3, "fflush": 0, "fclose": 0, "fseek": 0, "rewind": 0,
           "ftell": 0, "fgetc": 0, "getc": 0, "feof": 0, "ferror": 0, "ungetc": 1, "setvbuf": 0, "setbuf": 0}
LIBC_STDOUT = {"printf", "puts", "putchar", "vprintf"}
LIBC_NORET = {"exit", "abort", "_exit", "longjmp"}
LIBC_FILES = {"fopen", "freopen", "remove", "unlink", "rename", "tmpfile", "mkdir"}


def _unwrap(n):
    while isinstance(n, dict) and n.get("kind") in ("ImplicitCastExpr", "ParenExpr", "ConstantExpr", "CStyleCastExpr") and len(n.get("inner", [])) == 1:
        n = n["inner"][0]
    return n


def _rec_of(t, base=None):
    """record name of a (pointer to) struct type node `type`; an unnamed member record is named after the member"""
    if not t:
        return "?"
    q = t.get("desugaredQualType") or t.get("qualType", "?")
    if "unnamed" in q or "anonymous" in q:
        q = t.get("qualType", "?")
    if "unnamed" in q or "anonymous" in q:
        b = _unwrap(base) if base is not None else {}
        if b.get("kind") == "MemberExpr":
            inner = b["inner"][0]
            return "%s.%s" % (_rec_of((inner if b.get("isArrow") else _unwrap(inner)).get("type"), inner), b.get("name", "?"))
        return "?unnamed"
    q = re.sub(r"\b(const|volatile|struct|union)\b", "", q)
    q = q.replace("*", "").strip()
    q = re.sub(r"\[.*\]$", "", q).strip()
    return q or "?"


def _is_ptr_type(t):
    q = (t or {}).get("desugaredQualType") or (t or {}).get("qualType", "")
    return q.rstrip().endswith("*")


def _is_array_type(t):
    q = (t or {}).get("desugaredQualType") or (t or {}).get("qualType", "")
    return q.rstrip().endswith("]")


class FuncX:
    """extraction of one function body into flat events"""

    def __init__(self, tu, fkey, decl):
        self.tu = tu
        self.fkey = fkey
        self.params = []
        self.ctxs = [[]]
        self.ctx_index = {(): 0}
        self.events = []
        self.uses = {}        # global atom -> set of "cond"/"value"
        self.scopes = []      # stack of (id, kind) of the enclosing loops / switches
        self.nscope = 0
        self.void = (decl.get("type", {}).get("qualType", "").split("(")[0].strip() == "void")
        for c in decl.get("inner", []):
            if c.get("kind") == "ParmVarDecl":
                self.params.append(c.get("name", "_p%d" % len(self.params)))

    # ---- atoms
    def var_atom(self, ref):
        k = ref.get("kind")
        if k == "FunctionDecl":
            return "f:" + self.tu.func_key(ref)
        if k == "ParmVarDecl":
            return "l:" + ref.get("name", "?")
        if k == "VarDecl":
            g = self.tu.global_key(ref)
            if g:
                return "g:" + g
            s = self.tu.fstatic.get(ref.get("id"))
            if s:
                return "g:" + s
            return "l:" + ref.get("name", "?")
        return None

    def emit(self, ev):
        if self.scopes:
            ev["s"] = [i for i, _k in self.scopes]
        self.events.append(ev)

    def enter(self, kind):
        self.nscope += 1
        self.scopes.append((self.nscope, kind))

    def leave(self):
        self.scopes.pop()

    def ctx_id(self, atoms):
        key = tuple(sorted(atoms))
        i = self.ctx_index.get(key)
        if i is None:
            i = len(self.ctxs)
            self.ctxs.append(list(key))
            self.ctx_index[key] = i
        return i

    # ---- expressions: returns the set of atoms read; emits events for embedded assignments and calls
    def expr(self, n, ctx, role="value"):
        out = set()
        self._expr(n, ctx, out, role)
        return out

    def _note_use(self, atom, role):
        if atom.startswith("g:") or atom.startswith("h:"):
            self.uses.setdefault(atom, set()).add(role)

    def _expr(self, n, ctx, out, role):
        if not isinstance(n, dict):
            return
        k = n.get("kind")
        if k is None:
            return
        if k == "DeclRefExpr":
            a = self.var_atom(n.get("referencedDecl", {}))
            if a:
                out.add(a)
                self._note_use(a, role)
            return
        if k == "MemberExpr":
            base = n["inner"][0]
            rec = _rec_of(_unwrap(base).get("type") if not n.get("isArrow") else base.get("type"), base)
            a = "h:%s.%s" % (rec, n.get("name", "?"))
            out.add(a)
            self._note_use(a, role)
            self._expr(base, ctx, out, role)
            return
        if k in ("UnaryExprOrTypeTraitExpr",):
            return          # sizeof / alignof: operand not evaluated
        if k == "CallExpr":
            out |= self.call(n, ctx, role)
            return
        if k == "BinaryOperator":
            op = n.get("opcode")
            if op == "=":
                out |= self.assign(n["inner"][0], n["inner"][1], ctx, compound=False)
                return
            if op in ("&&", "||"):
                l = self.expr(n["inner"][0], ctx, "cond" if role == "cond" else role)
                out |= l
                out |= self.expr(n["inner"][1], ctx | l, role)
                return
            if op == ",":
                self.expr(n["inner"][0], ctx, "value")
                self._expr(n["inner"][1], ctx, out, role)
                return
            for c in n.get("inner", []):
                self._expr(c, ctx, out, role)
            return
        if k == "CompoundAssignOperator":
            out |= self.assign(n["inner"][0], n["inner"][1], ctx, compound=True)
            return
        if k == "UnaryOperator":
            op = n.get("opcode")
            if op in ("++", "--"):
                out |= self.assign(n["inner"][0], None, ctx, compound=True)
                return
            if op == "&":
                # address of an object: only sub-expressions are evaluated; the object itself is "read" (by whoever
                # receives the pointer) only if it is a scalar or an owned record (decided in the analysis phase)
                opnd = _unwrap(n["inner"][0])
                r2 = set()
                tg = self.targets(opnd, ctx, r2)
                out |= r2
                q = (opnd.get("type") or {})
                qq = q.get("desugaredQualType") or q.get("qualType", "")
                isrec = ("struct " in qq or "union " in qq) and not qq.rstrip().endswith("*")
                for t in self.flat(tg):
                    if t[:2] in ("g:", "l:", "h:"):
                        if isrec and t[:2] != "h:":
                            out.add("A:%s:%s" % (_rec_of(q, opnd), t))
                        else:
                            out.add(t)
                            self._note_use(t, role)
                return
            self._expr(n["inner"][0], ctx, out, role)
            return
        if k in ("ConditionalOperator", "BinaryConditionalOperator"):
            inner = n.get("inner", [])
            c = self.expr(inner[0], ctx, "cond")
            out |= c
            for b in inner[1:]:
                out |= self.expr(b, ctx | c, role)
            return
        if k == "StmtExpr":
            for c in n.get("inner", []):
                self.stmt(c, ctx)
            return
        for c in n.get("inner", []) or []:
            self._expr(c, ctx, out, role)

    # ---- lvalues
    def targets(self, n, ctx, reads):
        """object keys an lvalue denotes; atoms evaluated on the way go to `reads`"""
        n = _unwrap(n)
        k = n.get("kind")
        if k == "DeclRefExpr":
            a = self.var_atom(n.get("referencedDecl", {}))
            return [a] if a and not a.startswith("f:") else []
        if k == "ArraySubscriptExpr":
            reads |= self.expr(n["inner"][1], ctx)
            return self.ptargets(n["inner"][0], ctx, reads)
        if k == "MemberExpr":
            base = n["inner"][0]
            if n.get("isArrow"):
                rec = _rec_of(base.get("type"), base)
                r2 = set()
                b = self.ptargets(base, ctx, r2)
                reads |= r2
                reads |= self.expr(base, ctx)
                return [dict(h="%s.%s" % (rec, n.get("name", "?")), b=b, a=1)]
            rec = _rec_of(_unwrap(base).get("type"), base)
            return [dict(h="%s.%s" % (rec, n.get("name", "?")), b=self.targets(base, ctx, reads), a=0)]
        if k == "UnaryOperator" and n.get("opcode") == "*":
            return self.ptargets(n["inner"][0], ctx, reads)
        if k in ("ConditionalOperator",):
            reads |= self.expr(n["inner"][0], ctx, "cond")
            return self.targets(n["inner"][1], ctx, reads) + self.targets(n["inner"][2], ctx, reads)
        reads |= self.expr(n, ctx)
        return []

    def ptargets(self, n, ctx, reads):
        """objects a pointer-valued expression may point to"""
        n = _unwrap(n)
        k = n.get("kind")
        if k == "DeclRefExpr":
            a = self.var_atom(n.get("referencedDecl", {}))
            if not a or a.startswith("f:"):
                return []
            if a.startswith("l:") and not _is_array_type(n.get("type")):
                return ["d:" + a[2:]]            # through a local pointer / pointer parameter
            return [a]                           # array, or global pointer variable (pointee identified with the variable)
        if k == "UnaryOperator" and n.get("opcode") == "&":
            return self.targets(n["inner"][0], ctx, reads)
        if k == "UnaryOperator" and n.get("opcode") in ("++", "--"):
            return self.ptargets(n["inner"][0], ctx, reads)
        if k == "BinaryOperator" and n.get("opcode") in ("+", "-"):
            reads |= self.expr(n["inner"][1], ctx)
            return self.ptargets(n["inner"][0], ctx, reads)
        if k == "ArraySubscriptExpr":      # element of an array of pointers / 2-dim array
            reads |= self.expr(n["inner"][1], ctx)
            return self.ptargets(n["inner"][0], ctx, reads)
        if k == "MemberExpr":
            return self.targets(n, ctx, reads)
        if k in ("ConditionalOperator",):
            reads |= self.expr(n["inner"][0], ctx, "cond")
            return self.ptargets(n["inner"][1], ctx, reads) + self.ptargets(n["inner"][2], ctx, reads)
        if k == "CallExpr":
            reads |= self.expr(n, ctx)
            return []
        if k == "StringLiteral":
            return []
        reads |= self.expr(n, ctx)
        return []

    def assign(self, lhs, rhs, ctx, compound):
        reads = set()
        tg = self.targets(lhs, ctx, reads)
        if rhs is not None:
            reads |= self.expr(rhs, ctx)
        flat = self.flat(tg)
        if compound:
            for t in flat:
                if not t.startswith("d:"):
                    reads.add(t)
                    self._note_use(t, "value")
        ev = dict(e="W", t=tg, r=sorted(reads), c=self.ctx_id(ctx))
        # pointer sources of a local pointer variable
        if rhs is not None and len(tg) == 1 and isinstance(tg[0], str) and tg[0].startswith("l:") and _is_ptr_type(_unwrap(lhs).get("type")):
            ps = self.ptargets(rhs, ctx, set())
            if ps:
                ev["p"] = ps
        self.emit(ev)
        # value of the assignment expression: the assigned value (for compound forms also the old value)
        return reads

    @staticmethod
    def flat(tg):
        """plain keys of a target list (record fields as `h:Rec.field`, bases of `.` accesses included)"""
        out = []
        for t in tg:
            if isinstance(t, dict):
                out.append("h:" + t["h"])
                if not t["a"]:
                    out += FuncX.flat(t["b"])
            else:
                out.append(t)
        return out

    def call(self, n, ctx, role):
        inner = n.get("inner", [])
        cal = _unwrap(inner[0])
        reads = set()
        if cal.get("kind") == "DeclRefExpr" and cal.get("referencedDecl", {}).get("kind") == "FunctionDecl":
            callee = self.tu.func_key(cal["referencedDecl"])
        else:
            r2 = set()
            tg = self.targets(cal, ctx, r2) if cal.get("kind") in ("DeclRefExpr", "MemberExpr", "ArraySubscriptExpr", "UnaryOperator") else []
            reads |= r2
            tg = [t for t in self.flat(tg) if t[:2] in ("g:", "h:", "l:")]
            callee = "*" + (tg[0] if tg else "?")
            for t in tg:
                reads.add(t)
        args, outs = [], []
        for a in inner[1:]:
            ar = set()
            au = _unwrap(a)
            o = []
            t = a.get("type", {})
            if _is_ptr_type(t) or _is_array_type(au.get("type")):
                q = t.get("desugaredQualType") or t.get("qualType", "")
                o = self.ptargets(a, ctx, ar)
                if re.match(r"^\s*const\b", q) or re.search(r"\bconst\s+\w+\s*\*$", q) or "(*)" in q:
                    o = []       # pointer to const / function pointer: nothing is written through it
            ar |= self.expr(a, ctx)
            args.append(sorted(ar))
            outs.append(o)
            reads |= ar
        self.emit(dict(e="K", f=callee, a=args, o=outs, c=self.ctx_id(ctx)))
        if callee in LIBC_NORET:
            self.emit(dict(e="J", k="exit", r=[], c=self.ctx_id(ctx), L=[i for i, kd in self.scopes if kd == "loop"]))
        return reads | {"r:" + callee}

    # ---- statements
    def stmt(self, n, ctx):
        if not isinstance(n, dict) or not n.get("kind"):
            return
        k = n["kind"]
        inner = n.get("inner", []) or []
        if k == "CompoundStmt":
            for c in inner:
                self.stmt(c, ctx)
        elif k == "IfStmt":
            c = self.expr(inner[0], ctx, "cond")
            for b in inner[1:]:
                self.stmt(b, ctx | c)
        elif k == "WhileStmt":
            self.enter("loop")
            c = self.expr(inner[0], ctx, "cond")
            self.stmt(inner[1], ctx | c)
            self.leave()
        elif k == "DoStmt":
            self.enter("loop")
            c = self.expr(inner[1], ctx, "cond")
            self.stmt(inner[0], ctx | c)
            self.leave()
        elif k == "ForStmt":
            init, _cv, cond, inc, body = (inner + [{}] * 5)[:5]
            self.stmt(init, ctx)
            self.enter("loop")
            c = self.expr(cond, ctx, "cond") if cond else set()
            self.stmt(inc, ctx | c)
            self.stmt(body, ctx | c)
            self.leave()
        elif k == "SwitchStmt":
            c = self.expr(inner[0], ctx, "cond")
            self.enter("switch")
            for b in inner[1:]:
                self.stmt(b, ctx | c)
            self.leave()
        elif k in ("CaseStmt", "DefaultStmt", "LabelStmt", "AttributedStmt"):
            for c in inner:
                if c.get("kind", "").endswith("Stmt") or c.get("kind") in ("CompoundStmt",):
                    self.stmt(c, ctx)
                elif c.get("kind") not in ("ConstantExpr", "IntegerLiteral", "CharacterLiteral") or k not in ("CaseStmt",):
                    self.stmt(c, ctx)
        elif k == "DeclStmt":
            for d in inner:
                if d.get("kind") == "VarDecl":
                    if d.get("storageClass") == "static":
                        continue
                    if "init" in d and d.get("inner"):
                        ini = d["inner"][-1]
                        reads = self.expr(ini, ctx)
                        ev = dict(e="W", t=["l:" + d.get("name", "?")], r=sorted(reads), c=self.ctx_id(ctx))
                        if _is_ptr_type(d.get("type")):
                            ps = self.ptargets(ini, ctx, set())
                            if ps:
                                ev["p"] = ps
                        self.emit(ev)
        elif k == "ReturnStmt":
            r = self.expr(inner[0], ctx) if inner else set()
            self.emit(dict(e="J", k="return", r=sorted(r), c=self.ctx_id(ctx), L=[i for i, kd in self.scopes if kd == "loop"]))
        elif k in ("GotoStmt", "IndirectGotoStmt"):
            self.emit(dict(e="J", k="goto", r=[], c=self.ctx_id(ctx)))
        elif k == "BreakStmt":
            sc = self.scopes[-1] if self.scopes else (0, "loop")
            self.emit(dict(e="J", k="break", r=[], c=self.ctx_id(ctx), b=sc[0], bk=sc[1]))
        elif k == "ContinueStmt":
            loops = [i for i, kd in self.scopes if kd == "loop"]
            self.emit(dict(e="J", k="continue", r=[], c=self.ctx_id(ctx), b=loops[-1] if loops else 0, bk="cont"))
        elif k == "NullStmt":
            pass
        else:
            self.expr(n, ctx)

    def result(self):
        return dict(params=self.params, void=self.void, ctxs=self.ctxs, events=self.events,
                    uses={a: sorted(r) for a, r in sorted(self.uses.items())})


class TU:
    def __init__(self, ast, fname):
        self.fname = fname
        self.gvars = {}       # id -> key
        self.gnames = {}      # name -> key (for redeclarations)
        self.fstatic = {}     # id of function-static variable -> key
        self.funcs = {}       # id -> key
        self.fnames = {}
        self.gdecl = {}       # key -> dict(type, const, defined)
        self.ginit = {}       # key -> function keys in the initialiser
        self.bodies = []
        top = ast.get("inner", [])
        for d in top:
            k = d.get("kind")
            if k == "VarDecl":
                nm = d.get("name")
                static = d.get("storageClass") == "static"
                key = self.gnames.get(nm) or (("%s@%s" % (nm, fname)) if static else nm)
                self.gnames[nm] = key
                self.gvars[d["id"]] = key
                q = d.get("type", {}).get("qualType", "")
                info = self.gdecl.setdefault(key, dict(type=q, defined=False))
                if d.get("storageClass") != "extern":
                    info["defined"] = True
                    info["type"] = q
            elif k == "FunctionDecl":
                nm = d.get("name")
                static = d.get("storageClass") == "static"
                key = self.fnames.get(nm) or (("%s@%s" % (nm, fname)) if static else nm)
                self.fnames[nm] = key
                self.funcs[d["id"]] = key
        for d in top:
            if d.get("kind") == "FunctionDecl":
                body = [c for c in d.get("inner", []) if c.get("kind") == "CompoundStmt"]
                if body:
                    self.bodies.append((self.funcs[d["id"]], d, body[0]))
                    for n in _g._walk(body[0]):
                        if n.get("kind") == "VarDecl" and n.get("storageClass") == "static":
                            self.fstatic[n["id"]] = "%s::%s" % (self.funcs[d["id"]], n.get("name"))
            elif d.get("kind") == "VarDecl" and d.get("inner"):
                fr = []
                for n in _g._walk(d):
                    if n.get("kind") == "DeclRefExpr" and n.get("referencedDecl", {}).get("kind") == "FunctionDecl":
                        fr.append(self.func_key(n["referencedDecl"]))
                if fr:
                    self.ginit[self.gvars[d["id"]]] = fr

    def global_key(self, ref):
        k = self.gvars.get(ref.get("id"))
        if k:
            return k
        return None

    def func_key(self, ref):
        k = self.funcs.get(ref.get("id"))
        if k:
            return k
        return self.fnames.get(ref.get("name")) or ref.get("name", "?")


def asparams_rows(ast):
    """rows (switch name, handler key) of the ASParams[] initialiser of as.c"""
    for d in ast.get("inner", []):
        if d.get("kind") == "VarDecl" and d.get("name") == "ASParams":
            init = [c for c in d.get("inner", []) if c.get("kind") == "InitListExpr"]
            if not init:
                raise ExtractError("as.c: ASParams has no initialiser list")
            rows = []
            for row in init[0].get("inner", []):
                if row.get("kind") != "InitListExpr":
                    continue
                cells = row.get("inner", [])
                nm = _g._strlit(cells[0]) if cells else None
                fn = _unwrap(cells[1]) if len(cells) > 1 else {}
                if nm is None or fn.get("kind") != "DeclRefExpr":
                    raise ExtractError("as.c: cannot interpret a row of ASParams[]")
                rows.append((nm, fn["referencedDecl"]["name"]))
            return rows
    return None


_DEFS = {}


def _defines(bdir, fname):
    """-D options the build uses for this translation unit (compile_commands.json of the current build)"""
    if bdir not in _DEFS:
        d = {}
        try:
            for e in json.load(open(os.path.join(bdir, "compile_commands.json"))):
                cmd = e.get("command") or " ".join(e.get("arguments", []))
                d[os.path.basename(e.get("file", ""))] = [x.replace('\\"', '"') for x in re.findall(r'(?<=\s)-D\S+', cmd)]
        except (OSError, ValueError):
            pass
        _DEFS[bdir] = d
    return _DEFS[bdir].get(fname, [])


def _clang(bdir, path):
    import subprocess
    cmd = ["clang-14", "-std=gnu11", "-w", "-D" + common.GUARD] + _defines(bdir, os.path.basename(path)) + \
          ["-I", common.REPO, "-I", bdir, "-fsyntax-only", "-Xclang", "-ast-dump=json", path]
    r = subprocess.run(cmd, stdout=subprocess.PIPE, stderr=subprocess.PIPE)
    if r.returncode != 0:
        raise ExtractError("clang-14 cannot parse %s: %s" % (path, r.stderr.decode(errors="replace")[-1500:]))
    return r.stdout.decode(errors="replace")


def analyse_file(job):
    bdir, path = job
    fname = os.path.basename(path)
    try:
        ast = json.loads(_clang(bdir, path))
    except ExtractError as ex:
        return dict(error=str(ex), file=fname)
    tu = TU(ast, fname)
    funcs = {}
    for fkey, decl, body in tu.bodies:
        fx = FuncX(tu, fkey, decl)
        fx.stmt(body, frozenset())
        funcs[fkey] = fx.result()
    out = dict(file=fname, funcs=funcs, ginit=tu.ginit,
               gdefs=sorted(k for k, v in tu.gdecl.items() if v["defined"]))
    if fname == "as.c":
        rows = asparams_rows(ast)
        if rows is None:
            return dict(error="as.c: ASParams[] not found", file=fname)
        out["asparams"] = [[n, tu.fnames.get(f, f)] for n, f in rows]
    return out


def source_files(bdir):
    """the translation units linked into asl, from the object list of the current build"""
    from translate import tables
    files = []
    for o in tables.objs(bdir, tables.AS_GROUPS):
        b = os.path.basename(o)
        if b.endswith(".c.o"):
            c = b[:-2]
            if os.path.exists(os.path.join(common.REPO, c)):
                files.append(c)
    files = sorted(set(files))
    if len(files) < 100 or "as.c" not in files:
        raise ExtractError("object list of the asl build looks wrong (%d translation units)" % len(files))
    return files


def _file_keys(bdir):
    hh = hashlib.sha256((_g._headers_hash(bdir) + ANALYZER_VERSION).encode()).hexdigest()[:16]
    files = source_files(bdir)
    keys = {}
    for f in files:
        with open(os.path.join(common.REPO, f), "rb") as fh:
            keys[f] = hashlib.sha256(fh.read()).hexdigest()[:16]
    allkey = hashlib.sha256((hh + "".join("%s:%s;" % (f, keys[f]) for f in files)).encode()).hexdigest()[:20]
    return files, keys, hh, allkey


def summaries(bdir):
    """per-file event summaries (cached per file by content hash)"""
    cdir = os.path.join(common.SCRATCH_ROOT, "reportflow-cache")
    os.makedirs(cdir, exist_ok=True)
    files, keys, hh, allkey = _file_keys(bdir)
    res, jobs = {}, []
    for f in files:
        cp = os.path.join(cdir, "%s-%s-%s.json" % (f, keys[f], hh))
        if os.path.exists(cp):
            try:
                res[f] = json.load(open(cp))
                continue
            except Exception:
                pass
        jobs.append((f, cp))
    if jobs:
        with concurrent.futures.ProcessPoolExecutor(max_workers=min(8, os.cpu_count() or 2)) as ex:
            for (f, cp), g in zip(jobs, ex.map(analyse_file, [(bdir, os.path.join(common.REPO, f)) for f, _c in jobs])):
                if "error" in g:
                    raise ExtractError(g["error"])
                tmp = cp + ".tmp%d" % os.getpid()
                with open(tmp, "w") as fh:
                    json.dump(g, fh, separators=(",", ":"))
                os.replace(tmp, cp)
                res[f] = g
                for n in os.listdir(cdir):
                    if n.startswith(f + "-") and os.path.join(cdir, n) != cp:
                        try:
                            os.unlink(os.path.join(cdir, n))
                        except OSError:
                            pass
    return files, res, allkey


# ------------------------------------------------------------------------------------------------
# whole-program analysis

class Program:
    def __init__(self, files, res, owned=(), summarised=None, asserting=()):
        self.file_of = {}
        self.fn = {}
        self.extern_called = set()
        self._lsrc = {}
        self.owned = set(owned)
        self.summarised = dict(summarised or {})
        self.asserting = set(asserting)
        for f in files:
            for k, v in res[f]["funcs"].items():
                if k not in self.fn:
                    self.fn[k] = self.normalise(v, k.split("@")[0] in self.asserting)
                    self.file_of[k] = f
        self.asparams = res["as.c"].get("asparams") or []
        # function pointers: objects (g:/h:) -> functions stored there
        self.fp = {}
        pf = {}
        for f in files:
            for var, fl in res[f].get("ginit", {}).items():
                self.fp.setdefault("g:" + var, set()).update(fl)
        for k, v in self.fn.items():
            for ev in v["events"]:
                if ev["e"] == "W":
                    fr = [a[2:] for a in ev["r"] if a.startswith("f:")]
                    if fr:
                        for t in ev["t"]:
                            if t[:2] in ("g:", "h:"):
                                self.fp.setdefault(t, set()).update(fr)
                elif ev["e"] == "K":
                    for i, a in enumerate(ev["a"]):
                        fr = [x[2:] for x in a if x.startswith("f:")]
                        if fr:
                            pf.setdefault((ev["f"], i), set()).update(fr)
        self.pf = pf
        for (callee, i), fl in pf.items():
            v = self.fn.get(callee)
            if not v or i >= len(v["params"]):
                continue
            pa = "l:" + v["params"][i]
            for ev in v["events"]:
                if ev["e"] == "W" and pa in ev["r"]:
                    for t in ev["t"]:
                        if t[:2] in ("g:", "h:"):
                            self.fp.setdefault(t, set()).update(fl)
        # local pointer sources
        self.ptsrc = {}
        for k, v in self.fn.items():
            d = {}
            for ev in v["events"]:
                if ev["e"] == "W" and "p" in ev:
                    d.setdefault(ev["t"][0][2:], set()).update(ev["p"])
            self.ptsrc[k] = d

    def expand(self, t):
        if isinstance(t, str):
            return [t]
        rec = t["h"].rsplit(".", 1)[0]
        out = []
        if self.rec_owned(rec):
            for b in t["b"]:
                out += self.expand(b)
            return out
        out.append("h:" + t["h"])
        return out

    def rec_owned(self, rec):
        return rec in self.owned or any(rec.startswith(o + ".") for o in self.owned)

    def atoms(self, lst):
        out = []
        for a in lst:
            if a.startswith("h:"):
                if self.rec_owned(a[2:].rsplit(".", 1)[0]):
                    continue
            elif a.startswith("A:"):
                _a, rec, rest = a.split(":", 2)
                if not self.rec_owned(rec):
                    continue
                a = rest
            out.append(a)
        return out

    def normalise(self, v, asserting=False):
        """record fields of owned (always embedded) record types are attributed to the owning object;
        exit()/abort() of a function listed as `assertingFunctions` (internal consistency checks) are dropped"""
        ev2 = []
        for ev in v["events"]:
            if asserting and ((ev["e"] == "K" and ev["f"] in LIBC_NORET) or (ev["e"] == "J" and ev["k"] == "exit")):
                continue
            e = dict(ev)
            if e["e"] == "W":
                e["t"] = sorted(set(x for t in ev["t"] for x in self.expand(t)))
                e["r"] = self.atoms(ev["r"])
                if "p" in ev:
                    e["p"] = sorted(set(x for t in ev["p"] for x in self.expand(t)))
            elif e["e"] == "K":
                e["a"] = [self.atoms(arg) for arg in ev["a"]]
                e["o"] = [sorted(set(x for t in o for x in self.expand(t))) for o in ev["o"]]
            else:
                e["r"] = self.atoms(ev["r"])
            ev2.append(e)
        return dict(params=v["params"], void=v["void"], events=ev2, ctxs=[self.atoms(c) for c in v["ctxs"]],
                    uses={a: r for a, r in v["uses"].items() if self.atoms([a])})

    def callees(self, F, name):
        """resolved callee keys with a body (summarised functions are treated like library functions)"""
        if name.startswith("*"):
            obj = name[1:]
            cands = set(self.fp.get(obj, ()))
            return [x for x in sorted(cands) if x in self.fn and x.split("@")[0] not in self.summarised]
        if name.split("@")[0] in self.summarised:
            return []
        return [name] if name in self.fn else []

    def resolve(self, F, key, seen=None):
        """`d:p` -> objects / `o:i` (memory behind parameter i); other keys unchanged"""
        if not key.startswith("d:"):
            return [key]
        p = key[2:]
        v = self.fn[F]
        if seen is None:
            seen = set()
        if p in seen:
            return []
        seen.add(p)
        out = []
        if p in v["params"]:
            out.append("o:%d" % v["params"].index(p))
        for s in self.ptsrc[F].get(p, ()):
            if s.startswith("d:"):
                out += self.resolve(F, s, seen)
            elif s.startswith("l:"):
                out.append(s)
            else:
                out.append(s)
        return out

    def compute_effects(self, collapse):
        fn = self.fn
        direct, outp, calls = {}, {}, {}
        for F, v in fn.items():
            dw, op, cl = set(), set(), []
            for ev in v["events"]:
                if ev["e"] == "W":
                    for t in ev["t"]:
                        for r in self.resolve(F, t):
                            if r[:2] in ("g:", "h:"):
                                dw.add(r)
                            elif r.startswith("o:"):
                                op.add(int(r[2:]))
                elif ev["e"] == "K":
                    cl.append(ev)
            direct[F], outp[F], calls[F] = dw, op, cl
        eff = {F: set(direct[F]) for F in fn}
        for F in fn:
            if F.split("@")[0] in collapse:
                eff[F] = {"call:" + F.split("@")[0]}
        self.outp, self.calls_of = outp, calls

        def ext_effects(F, ev):
            name = ev["f"].split("@")[0]
            out, ops = set(), []
            if name in self.summarised:
                ops = list(self.summarised[name])
            elif name in LIBC_OUT:
                ops = LIBC_OUT[name]
                if ops is None:
                    ops = list(range(2, len(ev["a"])))
            elif name in LIBC_IO:
                i = LIBC_IO[name]
                out.add(self.stream_key(F, ev["a"][i] if i < len(ev["a"]) else []))
            elif name in LIBC_STDOUT:
                out.add("io:stdout")
            elif name in LIBC_NORET:
                out.add("ext:exit")
            elif name in LIBC_FILES:
                atoms = ev["a"][0] if ev["a"] else []
                who = sorted(a[2:].split("@")[0] for a in atoms if a.startswith("g:"))
                if not who and F in self.fn and name in ("unlink", "remove"):
                    # the file name is a parameter of F (a thin wrapper such as UnlinkIfRegular(name)): resolved at F's call sites
                    params = self.fn[F]["params"]
                    idx = [params.index(a[2:]) for a in atoms if a.startswith("l:") and a[2:] in params]
                    if idx:
                        out.add("ext:%s(@%d)" % (name, idx[0]))
                        return out, ops
                out.add("ext:%s(%s)" % (name, ",".join(who) if who else "?"))
            else:
                self.extern_called.add(name)
            return out, ops

        self.ext_effects = ext_effects
        changed = True
        rounds = 0
        while changed:
            changed = False
            rounds += 1
            for F in fn:
                if F.split("@")[0] in collapse:
                    continue
                e, op = eff[F], outp[F]
                n0, m0 = len(e), len(op)
                for ev in calls[F]:
                    for X in self.callbacks(ev):
                        e |= self.lift(F, ev, eff[X]) if not ev["f"].startswith("*") else eff[X]
                    targets = self.callees(F, ev["f"])
                    if targets:
                        ops = set()
                        for G in targets:
                            e |= self.lift(F, ev, eff[G])
                            ops |= outp[G]
                    elif ev["f"].startswith("*"):
                        ops = set()
                    else:
                        x, ops = ext_effects(F, ev)
                        e |= x
                    for i in ops:
                        if i < len(ev["o"]):
                            for t in ev["o"][i]:
                                for r in self.resolve(F, t):
                                    if r[:2] in ("g:", "h:"):
                                        e.add(r)
                                    elif r.startswith("o:"):
                                        op.add(int(r[2:]))
                if len(e) != n0 or len(op) != m0:
                    changed = True
        self.eff = eff
        return rounds

    def stream_key(self, F, atoms):
        """`io:<stream variable>`; `io:@i` = the stream is parameter i of F (resolved at F's call sites); `io:?` unknown"""
        g = [a for a in atoms if a.startswith("g:")]
        if g:
            return "io:" + g[0][2:]
        h = [a for a in atoms if a.startswith("h:")]
        if h:
            return "io:" + h[0][2:]
        params = self.fn[F]["params"] if F in self.fn else []
        for a in atoms:
            if a.startswith("l:") and a[2:] in params:
                return "io:@%d" % params.index(a[2:])
        # a local stream variable: what it was assigned from
        src = set()
        for a in atoms:
            if a.startswith("l:"):
                src |= self.local_sources(F).get(a[2:], set())
        g = sorted(x for x in src if x.startswith("g:"))
        if g:
            return "io:" + "|".join(x[2:] for x in g)
        if any(x in ("r:fopen", "r:tmpfile", "r:freopen") for x in src):
            return "io:(file opened in the function)"
        return "io:?"

    def local_sources(self, F):
        d = self._lsrc.get(F)
        if d is None:
            d = {}
            for ev in self.fn[F]["events"] if F in self.fn else []:
                if ev["e"] == "W":
                    for t in ev["t"]:
                        if t.startswith("l:"):
                            d.setdefault(t[2:], set()).update(ev["r"])
            self._lsrc[F] = d
        return d

    def lift(self, F, ev, objs):
        """effects of a callee seen from the call site: a stream parameter becomes the stream handed over"""
        out = set()
        for o in objs:
            if o.startswith("io:@"):
                i = int(o[4:])
                out.add(self.stream_key(F, ev["a"][i]) if i < len(ev["a"]) else "io:?")
            elif o.startswith("ext:") and "(@" in o:
                name, i = o[4:o.index("(")], int(o[o.index("(@") + 2:-1])
                atoms = ev["a"][i] if i < len(ev["a"]) else []
                who = sorted(a[2:].split("@")[0] for a in atoms if a.startswith("g:"))
                params = self.fn[F]["params"] if F in self.fn else []
                idx = [params.index(a[2:]) for a in atoms if a.startswith("l:") and a[2:] in params]
                if who:
                    out.add("ext:%s(%s)" % (name, ",".join(who)))
                elif idx:
                    out.add("ext:%s(@%d)" % (name, idx[0]))
                else:
                    out.add("ext:%s(?)" % name)
            else:
                out.add(o)
        return out

    def callbacks(self, ev):
        """functions handed to the callee as arguments: treated as called from this call site"""
        out = []
        for a in ev["a"]:
            for x in a:
                if x.startswith("f:") and x[2:] in self.fn and x[2:].split("@")[0] not in self.summarised:
                    out.append(x[2:])
        return out

    def call_effects(self, F, ev):
        """objects a call event may write (callee closure + memory behind the arguments the callee writes through);
        second component: local variables / out-parameters of F written through"""
        objs, loc = set(), set()
        targets = self.callees(F, ev["f"])
        ops = set()
        for X in self.callbacks(ev):
            objs |= self.eff[X]
        if targets:
            for G in targets:
                objs |= self.lift(F, ev, self.eff[G])
                ops |= self.outp[G]
        elif not ev["f"].startswith("*"):
            x, o = self.ext_effects(F, ev)
            objs |= x
            ops = set(o)
        for i in ops:
            if i < len(ev["o"]):
                for t in ev["o"][i]:
                    for r in self.resolve(F, t):
                        if r[:2] in ("g:", "h:"):
                            objs.add(r)
                        else:
                            loc.add(r)
        return objs, loc, ops


def obj_group(key):
    """`h:Rec.field` -> `h:Rec` (a seed entry `h:Rec` stands for every field of the record); other keys unchanged"""
    if key.startswith("h:") and "." in key:
        return key.rsplit(".", 1)[0]
    return key


def match_obj(patterns, key):
    return key in patterns or obj_group(key) in patterns


# ------------------------------------------------------------------------------------------------
# the seed list (lean/AslModel/Spec/ReportObjects.lean)

def _lean_lists(path):
    """`def name : T := [ ... ]` blocks of a Lean file -> {name: [(string literals of the entry, [nats] or None)]}"""
    try:
        text = common.strip_lean_comments(open(path).read())
    except OSError as ex:
        raise ExtractError("cannot read %s: %s" % (path, ex))
    out = {}
    for m in re.finditer(r"\bdef\s+(\w+)\s*:[^\n]*:=\s*\[(.*?)\n?\s*\]\s*(?=\n\s*\n|\n\s*(?:def|end|theorem|structure)\b|\Z)", text, re.S):
        name, body = m.group(1), m.group(2)
        ents = []
        # entries are separated at top level commas; an entry is a string, a tuple / structure of strings or (string, [nats])
        depth, cur, instr, esc = 0, "", False, False
        parts = []
        for ch in body:
            if instr:
                cur += ch
                if esc:
                    esc = False
                elif ch == "\\":
                    esc = True
                elif ch == '"':
                    instr = False
                continue
            if ch == '"':
                instr = True
                cur += ch
            elif ch in "([⟨":
                depth += 1
                cur += ch
            elif ch in ")]⟩":
                depth -= 1
                cur += ch
            elif ch == "," and depth == 0:
                parts.append(cur)
                cur = ""
            else:
                cur += ch
        if cur.strip():
            parts.append(cur)
        for part in parts:
            strs = [json.loads(x) for x in re.findall(r'"(?:[^"\\]|\\.)*"', part)]
            nums = re.search(r"\[([\d,\s]*)\]", re.sub(r'"(?:[^"\\]|\\.)*"', "", part))
            if not strs:
                raise ExtractError("%s, list %s: cannot read the entry %r" % (os.path.basename(path), name, part.strip()[:60]))
            ents.append((strs, [int(x) for x in nums.group(1).split(",") if x.strip()] if nums else None))
        out[name] = ents
    return out


def read_exceptions():
    """the exceptions of Props/C17_Flow.lean (for diagnostics only: the verdict is the Lean obligation)"""
    p = os.path.join(common.LEAN_DIR, "AslModel", "Props", "C17_Flow.lean")
    try:
        return [tuple(e[0][:6]) for e in _lean_lists(p).get("exceptions", []) if len(e[0]) >= 6]
    except ExtractError:
        return []


def unjustified(inv):
    """rows that neither the seed list nor an exception covers (Python mirror of `okRow`, for the replay file)"""
    seed = inv["seed"]
    keys = set(seed["reportObjects"]) | set(seed["scratchObjects"]) | set("g:" + v for v in inv["roots"])
    exc = read_exceptions()
    bad = []
    for var, fn, fil, kind, obj, via in inv["rows"]:
        if obj == "" or match_obj(keys, obj):
            continue
        if any(e[2] == obj and e[0] in ("*", var) and e[1] == fn and e[3] in ("*", via) for e in exc):
            continue
        bad.append(dict(var=var, function=fn, file=fil, kind=kind, object=obj, via=via))
    return bad


def exception_classes(inv):
    """how many rows each class of exception covers"""
    exc = read_exceptions()
    out = {}
    for var, fn, fil, kind, obj, via in inv["rows"]:
        for e in exc:
            if e[2] == obj and e[0] in ("*", var) and e[1] == fn and e[3] in ("*", via):
                out[e[4]] = out.get(e[4], 0) + 1
                break
    return out


def read_seed():
    out = _lean_lists(SEED_FILE)
    need = ["reportOptionNames", "reportVariables", "reportObjects", "scratchObjects", "ownedRecords", "collapsedCalls",
            "assertingFunctions", "summarisedFunctions", "cutResults"]
    for n in need:
        if n not in out:
            raise ExtractError("seed list: definition %s not found in %s" % (n, SEED_FILE))
    first = lambda n: [e[0][0] for e in out[n]]
    return dict(reportOptionNames=first("reportOptionNames"), reportVariables=first("reportVariables"),
                reportObjects=first("reportObjects"), scratchObjects=first("scratchObjects"), ownedRecords=first("ownedRecords"),
                collapsedCalls=first("collapsedCalls"), assertingFunctions=first("assertingFunctions"),
                summarisedFunctions=[(e[0][0], e[1] or []) for e in out["summarisedFunctions"]],
                cutResults=[(e[0][0], e[0][1]) for e in out["cutResults"]])


def analyse(files, res, seed):
    """returns dict(options, rows, stats)"""
    summarised = {k: v for k, v in seed["summarisedFunctions"]}
    P = Program(files, res, seed["ownedRecords"], summarised, seed["assertingFunctions"])
    report_opts = seed["reportOptionNames"]
    report_objs = set(seed["reportObjects"])
    collapse = set(seed["collapsedCalls"])
    cuts = set((r, f) for r, f in seed["cutResults"])
    scratch = set(seed["scratchObjects"])

    def is_cut(G, r):
        b = G.split("@")[0]
        return b in summarised or ("*", b) in cuts or (r, b) in cuts

    P.compute_effects(collapse)
    fn = P.fn
    # 1. report options and report variables
    names = [n for n, _h in P.asparams]
    options = []
    for n, h in P.asparams:
        if n not in report_opts:
            continue
        if h not in fn:
            raise ExtractError("handler %s of switch %s has no body in as.c" % (h, n))
        vs = sorted(x[2:] for x in P.eff[h] if x.startswith("g:"))
        other = sorted(x for x in P.eff[h] if not x.startswith("g:"))
        options.append(dict(name=n, handler=h.split("@")[0], vars=vs, other=other))
    missing = [o for o in report_opts if o not in [x["name"] for x in options]]
    roots = sorted(set(v for o in options for v in o["vars"]))
    GT = {"g:" + v: {v} for v in roots}
    LT, RT, IOT = {}, {}, {}
    rows = set()

    def is_rep(k):
        return k[2:] in roots and k.startswith("g:") or match_obj(report_objs, k)
    del scratch

    def taint_of(F, atoms):
        out = set()
        for a in atoms:
            p = a[:2]
            if p in ("g:", "h:"):
                t = GT.get(a)
                if t:
                    out |= {(r, False) for r in t}
            elif p == "l:":
                t = LT.get((F, a[2:]))
                if t:
                    out |= t
            elif p == "r:":
                for G in P.callees(F, a[2:]):
                    t = RT.get(G)
                    if t:
                        out |= {(r, False) for r in t if not is_cut(G, r)}
        return out

    changed = [True]

    def add(d, k, vals):
        if not vals:
            return
        s = d.get(k)
        if s is None:
            d[k] = set(vals)
            changed[0] = True
        elif not vals <= s:
            s |= vals
            changed[0] = True

    def sink(F, key, taint, kind, via):
        """tainted write to object `key` (already resolved) in function F"""
        if not taint:
            return
        if key.startswith("l:"):
            add(LT, (F, key[2:]), taint)
        elif key.startswith("o:"):
            add(RT, F, {r for r, viap in taint if not viap})
        elif key.startswith("io:@"):
            # tainted output to a stream that is a parameter of F: reported where the stream is known (call sites)
            # (taint that entered through a parameter of F is accounted at the call site that passed it)
            own = {r for r, viap in taint if not viap}
            add(IOT, (F, int(key[4:])), own)
            for r in own:
                rows.add((r, F, kind, "io:(stream parameter)", via))
        elif key.startswith("ext:") and "(@" in key:
            # removal of a file whose name is a parameter of F (thin wrapper): accounted at the call sites, where the name is known
            return
        elif key[:2] in ("g:", "h:") or key[:3] in ("io:",) or key[:4] in ("ext:",) or key[:5] in ("call:",):
            for r, _v in taint:
                row = (r, F, kind, key, via)
                if row not in rows:
                    rows.add(row)
            if key[:2] in ("g:", "h:") and is_rep(key):
                add(GT, key, {r for r, _v in taint})

    rounds = 0
    while changed[0]:
        changed[0] = False
        rounds += 1
        if rounds > 60:
            raise ExtractError("report-flow analysis does not reach a fixpoint")
        for F, v in fn.items():
            base = F.split("@")[0]
            events = v["events"]
            ctxT = [taint_of(F, c) if c else set() for c in v["ctxs"]]
            has_ctx = any(ctxT)
            evT = [ctxT[ev["c"]] for ev in events]
            if has_ctx:
                # control dependence created by jumps under a tainted condition
                Js = [(j, ev) for j, ev in enumerate(events) if ev["e"] == "J"]
                extra = {}
                again = bool(Js)
                while again:
                    again = False
                    for j, ev in Js:
                        t = evT[j] | extra.get(j, set())
                        if not t:
                            continue
                        k = ev["k"]
                        L = ev.get("L", ())
                        b = ev.get("b", 0)
                        for i, e2 in enumerate(events):
                            if i == j:
                                continue
                            S = e2.get("s", ())
                            if k in ("return", "exit"):
                                aff = i > j or any(l in S for l in L)
                            elif k == "goto":
                                aff = True
                            elif k == "break":
                                aff = b != 0 and b in S and (ev["bk"] == "loop" or i > j)
                            else:
                                aff = b != 0 and b in S and i > j
                            if aff:
                                x = extra.get(i)
                                if x is None:
                                    extra[i] = set(t)
                                    again = True
                                elif not t <= x:
                                    x |= t
                                    again = True
                for i, x in extra.items():
                    evT[i] = evT[i] | x
            for idx, ev in enumerate(events):
                cT = evT[idx]
                k = ev["e"]
                if k == "W":
                    rT = taint_of(F, ev["r"])
                    if not rT and not cT:
                        continue
                    for t in ev["t"]:
                        for r in P.resolve(F, t):
                            # an object's own old value is not a flow into it
                            vT = taint_of(F, [a for a in ev["r"] if a != r]) if r in ev["r"] else rT
                            got = {x[0] for x in vT}
                            sink(F, r, vT, "value-flows", "")
                            sink(F, r, {x for x in cT if x[0] not in got}, "guards-write", "")
                elif k == "K":
                    aT = [taint_of(F, a) for a in ev["a"]]
                    allT = set().union(*aT) if aT else set()
                    targets = P.callees(F, ev["f"])
                    cbs = P.callbacks(ev)
                    resT = set()
                    for G in targets + cbs:
                        if RT.get(G):
                            resT |= {(r, False) for r in RT[G] if not is_cut(G, r)}
                    iot = [(G, i) for G in targets + cbs for i in range(len(ev["a"])) if IOT.get((G, i))]
                    if not cT and not allT and not resT and not iot:
                        continue
                    objs, loc, ops = P.call_effects(F, ev)
                    cname = ev["f"].split("@")[0]
                    if cT:
                        for o in objs:
                            sink(F, o, cT, "guards-write", cname)
                        for l in loc:
                            sink(F, l, cT, "guards-write", cname)
                    # tainted output of the callee to a stream parameter: the stream is known here
                    for G, i in iot:
                        sink(F, P.stream_key(F, ev["a"][i]), {(r, False) for r in IOT[(G, i)]}, "value-flows", cname)
                    # a tainted argument that the callee writes to a stream it was handed: the stream is known here
                    if allT:
                        for G in targets + cbs:
                            for o in P.eff[G]:
                                if o.startswith("io:@"):
                                    i = int(o[4:])
                                    if i < len(ev["a"]):
                                        sink(F, P.stream_key(F, ev["a"][i]), allT, "value-flows", cname)
                    # arguments into the callee's parameters
                    for G in targets:
                        gv = fn[G]
                        for i, t in enumerate(aT):
                            if t and i < len(gv["params"]):
                                add(LT, (G, gv["params"][i]), {(r, True) for r, _v in t})
                    # a function handed over as argument may be called with any of the other arguments
                    if allT:
                        for X in cbs:
                            for pn in fn[X]["params"]:
                                add(LT, (X, pn), {(r, True) for r, _v in allT})
                    # argument / result values into the memory the callee writes through
                    flow = allT | resT
                    if flow:
                        for i in ops:
                            if i < len(ev["o"]):
                                for t in ev["o"][i]:
                                    for r in P.resolve(F, t):
                                        if any(r in a for a in ev["a"]):
                                            fl = set(resT)
                                            for a in ev["a"]:
                                                fl |= taint_of(F, [x for x in a if x != r])
                                        else:
                                            fl = flow
                                        sink(F, r, fl, "value-flows", cname)
                        if not targets and not ev["f"].startswith("*") and allT:
                            # external function: stream / file effects receive the value
                            for o in objs:
                                if o[:3] == "io:" or o[:4] == "ext:":
                                    sink(F, o, allT, "value-flows", cname)
                elif k == "J":
                    rT = taint_of(F, ev["r"]) if ev["r"] else set()
                    if rT:
                        add(RT, F, {r for r, viap in rT if not viap})
                    if cT and not v["void"]:
                        add(RT, F, {r for r, viap in cT if not viap})
            # result taint of a cut function is recorded, not propagated
            for r in RT.get(F, ()):
                if is_cut(F, r):
                    rows.add((r, F, "value-flows", "fn:" + base, ""))
    # 3. uses without any object
    have = set((r, F) for (r, F, _k, _o, _v) in rows)
    nuses = 0
    for F, v in fn.items():
        for a in v["uses"]:
            for r in GT.get(a, ()):
                nuses += 1
                if (r, F) not in have:
                    rows.add((r, F, "report-only", "", ""))
                    have.add((r, F))
    out_rows = sorted((r, F.split("@")[0], P.file_of[F], k, o, via) for (r, F, k, o, via) in rows)
    tracked = sorted(k for k, t in GT.items() if t)
    stats = dict(functions=len(fn), files=len(files), rounds=rounds, reads_of_tracked_objects=nuses,
                 tracked_objects=len(tracked), extern_functions=len(P.extern_called))
    return dict(options=options, missing=missing, roots=roots, rows=out_rows, tracked=tracked, stats=stats,
                switches=names, extern=sorted(P.extern_called), P=P)


_INV = {}


def inventory(bdir):
    """the inventory of the current sources under the current seed list (cached as a whole)"""
    seed = read_seed()
    _files, _keys, _hh, allkey = _file_keys(bdir)
    key = hashlib.sha256((allkey + json.dumps(seed, sort_keys=True) + ANALYZER_VERSION).encode()).hexdigest()[:20]
    if key in _INV:
        return _INV[key]
    cdir = os.path.join(common.SCRATCH_ROOT, "reportflow-cache")
    os.makedirs(cdir, exist_ok=True)
    cp = os.path.join(cdir, "result-%s.json" % key)
    if os.path.exists(cp):
        try:
            _INV[key] = json.load(open(cp))
            return _INV[key]
        except Exception:
            pass
    files, res, _k = summaries(bdir)
    r = analyse(files, res, seed)
    r.pop("P", None)
    r["seed"] = seed
    r["rows"] = [list(x) for x in r["rows"]]
    for n in os.listdir(cdir):
        if n.startswith("result-"):
            try:
                os.unlink(os.path.join(cdir, n))
            except OSError:
                pass
    tmp = cp + ".tmp%d" % os.getpid()
    with open(tmp, "w") as fh:
        json.dump(r, fh)
    os.replace(tmp, cp)
    _INV[key] = r
    return r


def statistics(inv):
    """numbers for the evidence"""
    seed = inv["seed"]
    rep = set(seed["reportObjects"]) | set(seed["scratchObjects"])
    rows = inv["rows"]
    kinds = {}
    for r in rows:
        kinds[r[3]] = kinds.get(r[3], 0) + 1
    objs = sorted(set(r[4] for r in rows if r[4]))
    roots = set("g:" + v for v in inv["roots"])
    nonrep = sorted(set(o for o in objs if not match_obj(rep, o) and o not in roots))
    renderers = ("asmlist.c", "asmdebug.c", "asminclist.c")
    return dict(report_options=len(inv["options"]), report_variables=len(inv["roots"]), tracked_objects=inv["stats"]["tracked_objects"],
                rows=len(rows), rows_by_kind=kinds, distinct_objects=len(objs), objects_not_classified_report=nonrep,
                rows_outside_renderer_files=sum(1 for r in rows if r[2] not in renderers),
                functions_with_a_use=len(set((r[1], r[2]) for r in rows)), files_with_a_use=len(set(r[2] for r in rows)),
                functions_analysed=inv["stats"]["functions"], translation_units=inv["stats"]["files"],
                reads_of_tracked_objects=inv["stats"]["reads_of_tracked_objects"],
                library_functions_called=inv["stats"]["extern_functions"])


def _ls(s):
    return '"' + str(s).replace("\\", "\\\\").replace('"', '\\"') + '"'


def _ll(xs):
    return "[" + ", ".join(_ls(x) for x in xs) + "]"


def gen_reportflow(bdir, write_if_changed, hdr):
    inv = inventory(bdir)
    if inv["missing"]:
        raise ExtractError("report switches of the property not found in ASParams[]: %s" % ", ".join(inv["missing"]))
    if len(inv["rows"]) < 200:
        raise ExtractError("report-flow inventory looks empty (%d rows)" % len(inv["rows"]))
    if len(inv["rows"]) > MAX_ROWS:
        bad = unjustified(inv)
        top = {}
        for b in bad:
            k = "%s in %s (%s)" % (b["var"], b["function"], b["file"])
            top[k] = top.get(k, 0) + 1
        raise ExtractError("report-flow inventory exploded: %d rows (limit %d), %d of them neither classified nor excepted - a report variable "
                           "has entered the code path; most frequent: %s; first: %s"
                           % (len(inv["rows"]), MAX_ROWS, len(bad), sorted(top.items(), key=lambda x: -x[1])[:8], json.dumps(bad[:6])))
    seed = inv["seed"]
    L = [hdr, "namespace AslModel.Generated.ReportFlow\n",
         "/-- a report switch of `ASParams[]`: handler, file-scope variables the handler assigns (directly or through callees),\n    other objects it writes as (key, group, hints as in `Row`) -/",
         "structure Opt where\n  name : String\n  handler : String\n  vars : List String\n  other : List (String × String × Nat × Bool)\nderiving Repr, DecidableEq, Inhabited\n",
         "/-- one use of a report variable (or of an object derived from it): where, and how it reaches the row's object;\n    `via` = callee through which the object is written (empty: written in `fn` itself) -/",
         "structure Use where\n  var : String\n  fn : String\n  file : String\n  kind : String\n  via : String\nderiving Repr, DecidableEq, Inhabited\n",
         "/-- all uses that reach one object; `grp` = the record for a field key (`h:Rec.field` -> `h:Rec`), else the key;\n    `key` = position in `classKeys` of the entry that classifies the object, `byGrp` = it does so through the record\n    (hints that the obligation re-checks by comparing the strings; `classKeys.length` = none) -/",
         "structure Row where\n  obj : String\n  grp : String\n  key : Nat\n  byGrp : Bool\n  uses : List Use\nderiving Repr, DecidableEq, Inhabited\n",
         "def options : List Opt := ["]
    ck = list(seed["reportObjects"]) + list(seed["scratchObjects"]) + ["g:" + v for v in inv["roots"]]

    def hint(x):
        if x in ck:
            return "%d, false" % ck.index(x)
        if obj_group(x) in ck:
            return "%d, true" % ck.index(obj_group(x))
        return "%d, false" % len(ck)
    L.append(",\n".join("  ⟨%s, %s, %s, [%s]⟩" % (_ls(o["name"]), _ls(o["handler"]), _ll(o["vars"]),
                                                  ", ".join("(%s, %s, %s)" % (_ls(x), _ls(obj_group(x)), hint(x)) for x in o["other"])) for o in inv["options"]))
    L.append("]\n")
    L.append("/-- every switch of `ASParams[]` in table order -/")
    L.append("def switches : List String := %s\n" % _ll(inv["switches"]))
    L.append("/-- the report variables: union of `vars` over `options` -/")
    L.append("def reportVars : List String := %s\n" % _ll(inv["roots"]))
    L.append("/-- the same as object keys -/")
    L.append("def reportVarKeys : List String := %s\n" % _ll(["g:" + v for v in inv["roots"]]))
    byobj = {}
    for var, fn, fil, kind, obj, via in inv["rows"]:
        byobj.setdefault(obj, []).append((var, fn, fil, kind, via))
    class_keys = list(seed["reportObjects"]) + list(seed["scratchObjects"]) + ["g:" + v for v in inv["roots"]]
    L.append("def rows : List Row := [")
    out = []
    for obj in sorted(byobj):
        us = ",\n".join("    ⟨%s, %s, %s, %s, %s⟩" % tuple(_ls(x) for x in u) for u in sorted(byobj[obj]))
        if obj == "":
            continue
        idx, bygrp = len(class_keys), False
        if obj in class_keys:
            idx = class_keys.index(obj)
        elif obj_group(obj) in class_keys:
            idx, bygrp = class_keys.index(obj_group(obj)), True
        out.append("  ⟨%s, %s, %d, %s, [\n%s]⟩" % (_ls(obj), _ls(obj_group(obj)), idx, "true" if bygrp else "false", us))
    L.append(",\n".join(out))
    L.append("]\n")
    L.append("/-- uses of a report variable (or derived object) that reach no object at all: (variable, function, file) -/")
    L.append("def reportOnlyUses : List (String × String × String) := [")
    L.append(",\n".join("  (%s, %s, %s)" % (_ls(u[0]), _ls(u[1]), _ls(u[2])) for u in sorted(byobj.get("", []))))
    L.append("]\n")
    L.append("/-- the seed list as the generator read it (Props/C17_Flow.lean proves it equal to Spec/ReportObjects.lean) -/")
    L.append("def usedReportOptionNames : List String := %s" % _ll(seed["reportOptionNames"]))
    L.append("def usedReportObjects : List String := %s" % _ll(seed["reportObjects"]))
    L.append("def usedScratchObjects : List String := %s" % _ll(seed["scratchObjects"]))
    L.append("def usedOwnedRecords : List String := %s" % _ll(seed["ownedRecords"]))
    L.append("def usedCollapsedCalls : List String := %s" % _ll(seed["collapsedCalls"]))
    L.append("def usedAssertingFunctions : List String := %s" % _ll(seed["assertingFunctions"]))
    L.append("def usedSummarisedFunctions : List (String × List Nat) := [%s]" % ", ".join("(%s, [%s])" % (_ls(n), ", ".join(str(i) for i in a)) for n, a in seed["summarisedFunctions"]))
    L.append("def usedCutResults : List (String × String) := [%s]\n" % ", ".join("(%s, %s)" % (_ls(a), _ls(b)) for a, b in seed["cutResults"]))
    L.append("/-- the keys that classify an object as report data: seed list, then the report variables themselves -/")
    L.append("def classKeys : List String := usedReportObjects ++ usedScratchObjects ++ reportVarKeys\n")
    st = inv["stats"]
    L.append("def functionsAnalysed : Nat := %d" % st["functions"])
    L.append("def translationUnits : Nat := %d" % st["files"])
    L.append("\nend AslModel.Generated.ReportFlow\n")
    return write_if_changed("ReportFlow.lean", "\n".join(L))


if __name__ == "__main__":
    import time
    bd = common.repo_build("hooks")
    t0 = time.time()
    if len(sys.argv) > 2:
        files, res, allkey = summaries(bd)
        print(json.dumps(res[sys.argv[1]]["funcs"][sys.argv[2]], indent=1))
        sys.exit(0)
    inv = inventory(bd)
    print("%.1f s" % (time.time() - t0), json.dumps(statistics(inv), indent=1))
    for o in inv["options"]:
        print(o)
    rep = set(inv["seed"]["reportObjects"]) | set(inv["seed"]["scratchObjects"])
    roots = set("g:" + v for v in inv["roots"])
    for row in inv["rows"]:
        if len(sys.argv) > 1 or (row[3] != "report-only" and not match_obj(rep, row[4]) and row[4] not in roots):
            print(tuple(row))
