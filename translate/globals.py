"""State inventory of the code generators (C18): which target-specific variables can be changed by a
*source statement* (ASSUME, ON/OFF instructions, CPU arguments) and on which of the paths that run before
every pass / every file they are given a fresh value.

Source: clang-14's JSON AST of every /repo/code*.c (typed AST, not text), plus as.c / asmallg.c for the core
paths.  Per code generator (= one code*.c) the result lists

  * every entry of every `ASSUMERec` table: ASSUME name, the variable it points to, Min/Max/NothingVal,
    the function(s) that install the table (`pASSUMERecs = T`);
  * every flag handed to `AddONOFF(instr, &Flag, ...)`;
  * every `tCPUArg` entry (`pValue`);

and for each variable whether it is assigned (plain `=`, `SetFlag(&v, ...)`, `memset(v, ...)`; not `+=`, `++`)

  * `initPass`   - in a function registered with `AddInitPassProc` in that file (transitively through callees
                   defined in the same file),
  * `switchTo`   - in *every* target-switch function that installs the table / registers the flag,
  * `switchFrom` - in a function assigned to `SwitchFrom` by those switch functions,
  * `core`       - on the core's own per-pass path (`AssembleFile_InitPass` of as.c: `SetFlag(&v, ...)`) or, for CPU
                   arguments, by the unconditional default loop at the head of `ParseCPUArgs` (asmallg.c).

The AST of one file is cached under VERIF_SCRATCH keyed by the content hash of the file and of all headers, so
an unchanged file costs nothing and an edited one is always re-read.
"""
import concurrent.futures
import hashlib
import json
import os
import re
import subprocess
import sys

sys.path.insert(0, os.path.dirname(os.path.dirname(os.path.abspath(__file__))))
from vlib import common

ANALYZER_VERSION = "9"


class ExtractError(Exception):
    pass


def _unwrap(n):
    while n.get("kind") in ("ImplicitCastExpr", "ParenExpr", "ConstantExpr", "CStyleCastExpr") and len(n.get("inner", [])) == 1:
        n = n["inner"][0]
    return n


def _walk(n):
    yield n
    for c in n.get("inner", []) or []:
        if isinstance(c, dict):
            yield from _walk(c)


def _const(n):
    """integer value of a constant expression node, or None"""
    n = _unwrap(n)
    k = n.get("kind")
    if k == "IntegerLiteral":
        return int(n["value"])
    if k == "CharacterLiteral":
        return int(n["value"])
    if k == "UnaryOperator" and n.get("opcode") in ("-", "+", "~"):
        v = _const(n["inner"][0])
        if v is None:
            return None
        return {"-": -v, "+": v, "~": ~v}[n["opcode"]]
    if k == "BinaryOperator":
        a, b = _const(n["inner"][0]), _const(n["inner"][1])
        if a is None or b is None:
            return None
        op = n["opcode"]
        try:
            return {"+": a + b, "-": a - b, "*": a * b, "<<": a << b, "|": a | b, "&": a & b}[op]
        except KeyError:
            return None
    if k == "DeclRefExpr" and n.get("referencedDecl", {}).get("kind") == "EnumConstantDecl":
        return None
    return None


def lvalue_key(n):
    """stable name of the object an lvalue / address expression denotes: `V`, `V[3]`, `V[*]`, `S.f`; None if not understood"""
    n = _unwrap(n)
    k = n.get("kind")
    if k == "DeclRefExpr":
        return n["referencedDecl"]["name"]
    if k == "ArraySubscriptExpr":
        b = lvalue_key(n["inner"][0])
        if b is None:
            return None
        i = _const(n["inner"][1])
        return "%s[%s]" % (b, "*" if i is None else i)
    if k == "MemberExpr":
        b = lvalue_key(n["inner"][0])
        if b is None:
            return None
        return "%s.%s" % (b, n.get("name", "?"))
    if k == "UnaryOperator" and n.get("opcode") == "*":
        return address_key(n["inner"][0])
    return None


def address_key(n):
    """object a pointer-valued expression points to: `&V`, `V` (array decay), `V + 2`, `&V[2]`"""
    n = _unwrap(n)
    k = n.get("kind")
    if k == "UnaryOperator" and n.get("opcode") == "&":
        return lvalue_key(n["inner"][0])
    if k == "DeclRefExpr":
        t = n.get("type", {}).get("qualType", "")
        if "[" in t:
            return n["referencedDecl"]["name"] + "[0]"
        return None
    if k == "BinaryOperator" and n.get("opcode") == "+":
        b = _unwrap(n["inner"][0])
        i = _const(n["inner"][1])
        if b.get("kind") == "DeclRefExpr" and "[" in b.get("type", {}).get("qualType", ""):
            return "%s[%s]" % (b["referencedDecl"]["name"], "*" if i is None else i)
    return None


def _callee(n):
    c = _unwrap(n["inner"][0])
    if c.get("kind") == "DeclRefExpr":
        return c["referencedDecl"]["name"]
    return None


def _strlit(n):
    n = _unwrap(n)
    if n.get("kind") == "StringLiteral":
        try:
            return json.loads(n["value"])
        except Exception:
            return n["value"].strip('"')
    return None


class FileInfo:
    pass


def _loop_range(f):
    """`for (v = c0; v < c1; v++)` (also `<=`, `++v`, `v += 1`) => (v, c0, c1 exclusive); None if the loop has another shape"""
    inner = f.get("inner", [])
    if len(inner) != 5:
        return None
    init, _cv, cond, inc, _body = inner
    if not (isinstance(init, dict) and isinstance(cond, dict) and isinstance(inc, dict)):
        return None
    init, cond, inc = _unwrap(init), _unwrap(cond), _unwrap(inc)
    if not (init.get("kind") == "BinaryOperator" and init.get("opcode") == "="):
        return None
    v = _unwrap(init["inner"][0])
    lo = _const(init["inner"][1])
    if v.get("kind") != "DeclRefExpr" or lo is None:
        return None
    name = v["referencedDecl"]["name"]
    if not (cond.get("kind") == "BinaryOperator" and cond.get("opcode") in ("<", "<=")):
        return None
    cv = _unwrap(cond["inner"][0])
    hi = _const(cond["inner"][1])
    if cv.get("kind") != "DeclRefExpr" or cv["referencedDecl"]["name"] != name or hi is None:
        return None
    if cond["opcode"] == "<=":
        hi += 1
    ok = False
    if inc.get("kind") == "UnaryOperator" and inc.get("opcode") == "++":
        iv = _unwrap(inc["inner"][0])
        ok = iv.get("kind") == "DeclRefExpr" and iv["referencedDecl"]["name"] == name
    elif inc.get("kind") == "CompoundAssignOperator" and inc.get("opcode") == "+=":
        iv = _unwrap(inc["inner"][0])
        ok = iv.get("kind") == "DeclRefExpr" and iv["referencedDecl"]["name"] == name and _const(inc["inner"][1]) == 1
    if not ok or hi - lo > 4096:
        return None
    return name, lo, hi


def _assigns_var(body, name):
    for n in _walk(body):
        if n.get("kind") in ("BinaryOperator", "CompoundAssignOperator") and n.get("opcode", "").endswith("=") and n.get("opcode") not in ("==", "!=", "<=", ">="):
            t = _unwrap(n["inner"][0])
            if t.get("kind") == "DeclRefExpr" and t["referencedDecl"]["name"] == name:
                return True
        if n.get("kind") == "UnaryOperator" and n.get("opcode") in ("++", "--"):
            t = _unwrap(n["inner"][0])
            if t.get("kind") == "DeclRefExpr" and t["referencedDecl"]["name"] == name:
                return True
    return False


def _indexed_assignments(body):
    """assignments `V[v] = ...` inside a counting loop over v with constant bounds: the exact element keys `V[c0]` .. `V[c1-1]`
    (instead of the over-approximation `V[*]`); returns {id of the assignment node: [keys]}"""
    out = {}

    def rec(n, env):
        if not isinstance(n, dict):
            return
        if n.get("kind") == "ForStmt":
            r = _loop_range(n)
            b = n["inner"][4] if len(n.get("inner", [])) == 5 and isinstance(n["inner"][4], dict) else None
            if r and b is not None and not _assigns_var(b, r[0]):
                env = dict(env)
                env[r[0]] = (r[1], r[2])
        if n.get("kind") == "BinaryOperator" and n.get("opcode") == "=":
            lhs = _unwrap(n["inner"][0])
            if lhs.get("kind") == "ArraySubscriptExpr":
                base = lvalue_key(lhs["inner"][0])
                idx = _unwrap(lhs["inner"][1])
                if base and idx.get("kind") == "DeclRefExpr" and idx["referencedDecl"]["name"] in env:
                    lo, hi = env[idx["referencedDecl"]["name"]]
                    out[id(n)] = ["%s[%d]" % (base, i) for i in range(lo, hi)]
        for c in n.get("inner", []) or []:
            rec(c, env)
    rec(body, {})
    return out


def direct_effects(body):
    """(assigned keys, callee names, function names whose address is taken/assigned) of one function body"""
    assigned, calls = set(), set()
    exact = _indexed_assignments(body)
    for n in _walk(body):
        k = n.get("kind")
        if k == "BinaryOperator" and n.get("opcode") == "=":
            if id(n) in exact:
                assigned.update(exact[id(n)])
                continue
            key = lvalue_key(n["inner"][0])
            if key:
                assigned.add(key)
            # chained a = b = c: inner assignment is visited by the walk
        elif k == "CallExpr":
            cn = _callee(n)
            if cn:
                calls.add(cn)
                args = n["inner"][1:]
                if cn == "SetFlag" and args:
                    key = address_key(args[0])
                    if key:
                        assigned.add(key)
                elif cn in ("memset", "memcpy", "strcpy", "strmaxcpy") and args:
                    a = _unwrap(args[0])
                    key = address_key(a) or lvalue_key(a)
                    if key:
                        key = re.sub(r"\[0\]$", "[*]", key) if cn in ("memset", "memcpy") else key
                        assigned.add(key)
    return assigned, calls


def covers(assigned, key):
    """is object `key` given a value by the assignment set?"""
    if key in assigned:
        return True
    m = re.match(r"^(.*)\[(\d+|\*)\]$", key)
    if m and (m.group(1) + "[*]" in assigned or m.group(1) in assigned):
        return True
    # struct assigned as a whole
    if "." in key and key.split(".")[0] in assigned:
        return True
    return False


def analyse_ast(ast, fname):
    funcs = {}
    top_vars = []
    file_vars = {}
    for d in ast.get("inner", []):
        if d.get("kind") == "FunctionDecl":
            body = [c for c in d.get("inner", []) if c.get("kind") == "CompoundStmt"]
            if body:
                funcs[d["name"]] = body[0]
        elif d.get("kind") == "VarDecl":
            top_vars.append((None, d))
            if d.get("storageClass") == "static":
                file_vars[d["name"]] = d.get("type", {}).get("qualType", "")
    # function-static tables
    for fn, body in funcs.items():
        for n in _walk(body):
            if n.get("kind") == "VarDecl" and ("ASSUMERec" in n.get("type", {}).get("qualType", "") or "tCPUArg" in n.get("type", {}).get("qualType", "")):
                top_vars.append((fn, n))
    eff = {fn: direct_effects(b) for fn, b in funcs.items()}

    def closure(roots):
        seen, out = set(), set()
        todo = [r for r in roots if r in funcs]
        while todo:
            f = todo.pop()
            if f in seen:
                continue
            seen.add(f)
            a, c = eff[f]
            out |= a
            todo += [x for x in c if x in funcs]
        return out

    # ASSUME tables and CPU-argument tables
    tables = {}
    cpuargs = {}
    for owner, v in top_vars:
        qt = v.get("type", {}).get("qualType", "")
        if "ASSUMERec" in qt and "[" in qt:
            init = [c for c in v.get("inner", []) if c.get("kind") == "InitListExpr"]
            if not init:
                continue
            ents = []
            for row in init[0].get("inner", []):
                if row.get("kind") != "InitListExpr":
                    continue
                cells = row.get("inner", [])
                if len(cells) < 5:
                    raise ExtractError("%s: ASSUMERec row of %s with %d cells" % (fname, v["name"], len(cells)))
                name = _strlit(cells[0])
                dest = address_key(cells[1])
                if name is None or dest is None:
                    raise ExtractError("%s: cannot interpret a row of ASSUMERec table %s" % (fname, v["name"]))
                cb = _unwrap(cells[5]) if len(cells) > 5 else {}
                cbn = cb["referencedDecl"]["name"] if cb.get("kind") == "DeclRefExpr" else None
                ents.append(dict(name=name, var=dest, min=_const(cells[2]), max=_const(cells[3]), nothing=_const(cells[4]), callback=cbn))
            tables[v["name"]] = dict(owner=owner, entries=ents)
        elif "tCPUArg" in qt and "[" in qt:
            init = [c for c in v.get("inner", []) if c.get("kind") == "InitListExpr"]
            if not init:
                continue
            ents = []
            for row in init[0].get("inner", []):
                if row.get("kind") != "InitListExpr":
                    continue
                cells = row.get("inner", [])
                name = _strlit(cells[0]) if cells else None
                if name is None:
                    continue   # terminator row
                dest = address_key(cells[4]) if len(cells) > 4 else None
                if dest is None:
                    raise ExtractError("%s: cannot interpret a row of tCPUArg table %s" % (fname, v["name"]))
                ents.append(dict(name=name, var=dest, default=_const(cells[3])))
            cpuargs[v["name"]] = ents

    # who installs a table / registers a flag / is registered where
    installers = {t: set() for t in tables}
    onoff = []          # (instr name, flag key, function)
    initpass_roots = set()
    switchfrom_of = {}  # function -> set of functions it assigns to SwitchFrom
    cpu_names = []
    switch_funcs = set()
    for fn, body in funcs.items():
        for n in _walk(body):
            k = n.get("kind")
            if k == "BinaryOperator" and n.get("opcode") == "=":
                lhs = _unwrap(n["inner"][0])
                if lhs.get("kind") == "DeclRefExpr" and lhs["referencedDecl"]["name"] == "pASSUMERecs":
                    for r in _walk(n["inner"][1]):
                        if r.get("kind") == "DeclRefExpr" and r["referencedDecl"]["name"] in tables:
                            installers[r["referencedDecl"]["name"]].add(fn)
                elif lhs.get("kind") == "DeclRefExpr" and lhs["referencedDecl"]["name"] == "SwitchFrom":
                    r = _unwrap(n["inner"][1])
                    if r.get("kind") == "DeclRefExpr":
                        switchfrom_of.setdefault(fn, set()).add(r["referencedDecl"]["name"])
            elif k == "CallExpr":
                cn = _callee(n)
                args = n["inner"][1:]
                if cn == "AddONOFF" and len(args) >= 2:
                    key = address_key(args[1])
                    nm = _strlit(args[0])
                    if nm is None:
                        a0 = _unwrap(args[0])
                        nm = a0.get("referencedDecl", {}).get("name", "?")
                    if key is None:
                        raise ExtractError("%s: cannot interpret AddONOFF flag argument in %s" % (fname, fn))
                    onoff.append((nm, key, fn))
                elif cn == "AddInitPassProc" and args:
                    a = _unwrap(args[0])
                    if a.get("kind") == "DeclRefExpr":
                        initpass_roots.add(a["referencedDecl"]["name"])
                    else:
                        raise ExtractError("%s: AddInitPassProc with a non-name argument" % fname)
                elif cn in ("AddCPUWithArgs", "AddCPUUserWithArgs") and len(args) >= 2:
                    nm = _strlit(args[0])
                    if nm:
                        cpu_names.append(nm)
                    a = _unwrap(args[1])
                    if a.get("kind") == "DeclRefExpr":
                        switch_funcs.add(a["referencedDecl"]["name"])
    # candidate CPU names from tables (validated against the real binary by the harness)
    lit_names = set()
    for owner, v in top_vars:
        for n in _walk(v):
            if n.get("kind") == "StringLiteral":
                s = _strlit(n)
                if s and re.match(r"^[A-Za-z0-9_./+-]{2,20}$", s) and re.search(r"\d", s):
                    lit_names.add(s)
    for fn, body in funcs.items():
        for n in _walk(body):
            if n.get("kind") == "VarDecl" and "[" in n.get("type", {}).get("qualType", "") and n.get("storageClass") == "static":
                for m in _walk(n):
                    if m.get("kind") == "StringLiteral":
                        s = _strlit(m)
                        if s and re.match(r"^[A-Za-z0-9_./+-]{2,20}$", s) and re.search(r"\d", s):
                            lit_names.add(s)

    # a target that decodes ASSUME itself (`pASSUMEOverride = F`): every file-scope variable F assigns is assumable
    custom = []
    for fn, body in funcs.items():
        for n in _walk(body):
            if n.get("kind") == "BinaryOperator" and n.get("opcode") == "=":
                lhs = _unwrap(n["inner"][0])
                if lhs.get("kind") == "DeclRefExpr" and lhs["referencedDecl"]["name"] == "pASSUMEOverride":
                    r = _unwrap(n["inner"][1])
                    if r.get("kind") == "DeclRefExpr" and r["referencedDecl"]["name"] in funcs:
                        for key in sorted(closure([r["referencedDecl"]["name"]])):
                            base = re.split(r"[\[.]", key)[0]
                            if base not in file_vars:
                                continue
                            m = re.match(r"^(\w+)\[\*\]$", key)
                            keys = [key]
                            if m:
                                sz = re.search(r"\[(\d+)\]", file_vars[base])
                                if sz and int(sz.group(1)) <= 64:
                                    keys = ["%s[%d]" % (base, i) for i in range(int(sz.group(1)))]
                            for k2 in keys:
                                custom.append((r["referencedDecl"]["name"], k2, fn))

    init_assigned = closure(initpass_roots)
    sw_assigned = {f: closure([f]) for f in funcs if f in switch_funcs or f.startswith("SwitchTo")}
    for f in set(x for s in installers.values() for x in s) | set(o[2] for o in onoff):
        if f not in sw_assigned:
            sw_assigned[f] = closure([f])
    swfrom_assigned = {f: closure(list(switchfrom_of.get(f, ()))) for f in sw_assigned}

    gen = dict(file=fname, initProcs=sorted(initpass_roots), switchFuncs=sorted(sw_assigned), cpuNames=cpu_names,
               cpuCandidates=sorted(lit_names - set(cpu_names)), vars=[])
    for t, info in tables.items():
        inst = set(installers[t])
        if not inst and info["owner"]:
            inst = {info["owner"]}
        for e in info["entries"]:
            gen["vars"].append(dict(kind="assume", table=t, name=e["name"], var=e["var"], min=e["min"], max=e["max"], nothing=e["nothing"],
                                    installers=sorted(inst),
                                    initPass=covers(init_assigned, e["var"]),
                                    switchTo=bool(inst) and all(covers(sw_assigned.get(f, set()), e["var"]) for f in inst),
                                    switchFrom=bool(inst) and all(covers(swfrom_assigned.get(f, set()), e["var"]) for f in inst),
                                    core=False))
    seenc = set()
    for ov, key, fn in custom:
        if key in seenc:
            continue
        seenc.add(key)
        inst = sorted(set(f for (_o, k2, f) in custom if k2 == key))
        gen["vars"].append(dict(kind="assume", table=ov, name=key, var=key, min=None, max=None, nothing=None, installers=inst,
                                initPass=covers(init_assigned, key),
                                switchTo=all(covers(sw_assigned.get(f, set()), key) for f in inst),
                                switchFrom=all(covers(swfrom_assigned.get(f, set()), key) for f in inst), core=False))
    seen = set()
    for nm, key, fn in onoff:
        if (nm, key) in seen:
            # registered by several switch functions: all must reset
            for v in gen["vars"]:
                if v["kind"] == "onoff" and v["name"] == nm and v["var"] == key:
                    v["installers"] = sorted(set(v["installers"]) | {fn})
                    v["switchTo"] = v["switchTo"] and covers(sw_assigned.get(fn, set()), key)
                    v["switchFrom"] = v["switchFrom"] and covers(swfrom_assigned.get(fn, set()), key)
            continue
        seen.add((nm, key))
        gen["vars"].append(dict(kind="onoff", table="AddONOFF", name=nm, var=key, min=0, max=1, nothing=None, installers=[fn],
                                initPass=covers(init_assigned, key), switchTo=covers(sw_assigned.get(fn, set()), key),
                                switchFrom=covers(swfrom_assigned.get(fn, set()), key), core=False))
    for t, ents in cpuargs.items():
        for e in ents:
            gen["vars"].append(dict(kind="cpuarg", table=t, name=e["name"], var=e["var"], min=None, max=None, nothing=e["default"], installers=[],
                                    initPass=covers(init_assigned, e["var"]), switchTo=False, switchFrom=False, core=False))
    return gen


def _clang_json(bdir, path, flt=None):
    cmd = ["clang-14", "-std=gnu11", "-w", "-D" + common.GUARD, "-I", common.REPO, "-I", bdir, "-fsyntax-only", "-Xclang", "-ast-dump=json"]
    if flt:
        cmd += ["-Xclang", "-ast-dump-filter=" + flt]
    r = subprocess.run(cmd + [path], stdout=subprocess.PIPE, stderr=subprocess.PIPE)
    if r.returncode != 0:
        raise ExtractError("clang-14 cannot parse %s: %s" % (path, r.stderr.decode(errors="replace")[-1500:]))
    return r.stdout.decode(errors="replace")


def _analyse_file(job):
    bdir, path = job
    try:
        return analyse_ast(json.loads(_clang_json(bdir, path)), os.path.basename(path))
    except ExtractError as ex:
        return dict(error=str(ex), file=os.path.basename(path))


def _headers_hash(bdir):
    h = hashlib.sha256()
    h.update(ANALYZER_VERSION.encode())
    for d in (common.REPO, bdir):
        for n in sorted(os.listdir(d)):
            if n.endswith(".h") or n.endswith(".hpp") or n.endswith(".rsc"):
                with open(os.path.join(d, n), "rb") as f:
                    h.update(n.encode() + hashlib.sha256(f.read()).digest())
    return h.hexdigest()[:16]


def core_facts(bdir):
    """flags SetFlag'ed / assigned by AssembleFile_InitPass (as.c); CPU-argument default loop of ParseCPUArgs (asmallg.c)"""
    docs = []
    text = _clang_json(bdir, os.path.join(common.REPO, "as.c"), "AssembleFile_InitPass")
    dec = json.JSONDecoder()
    i = 0
    while i < len(text):
        while i < len(text) and text[i].isspace():
            i += 1
        if i >= len(text):
            break
        d, i = dec.raw_decode(text, i)
        docs.append(d)
    bodies = [c for d in docs if d.get("kind") == "FunctionDecl" and d.get("name") == "AssembleFile_InitPass" for c in d.get("inner", []) if c.get("kind") == "CompoundStmt"]
    if len(bodies) != 1:
        raise ExtractError("as.c: AssembleFile_InitPass not found")
    assigned, calls = direct_effects(bodies[0])
    if "InitPass" not in calls:
        raise ExtractError("as.c: AssembleFile_InitPass no longer calls InitPass()")
    # ParseCPUArgs: the default loop must be a top-level statement that precedes any return that depends on the user arguments
    text = _clang_json(bdir, os.path.join(common.REPO, "asmallg.c"), "ParseCPUArgs")
    docs, i = [], 0
    while i < len(text):
        while i < len(text) and text[i].isspace():
            i += 1
        if i >= len(text):
            break
        d, i = dec.raw_decode(text, i)
        docs.append(d)
    bodies = [c for d in docs if d.get("kind") == "FunctionDecl" and d.get("name") == "ParseCPUArgs" for c in d.get("inner", []) if c.get("kind") == "CompoundStmt"]
    if len(bodies) != 1:
        raise ExtractError("asmallg.c: ParseCPUArgs not found")
    cpuarg_default = False
    for st in bodies[0].get("inner", []):
        if st.get("kind") == "ForStmt":
            for n in _walk(st):
                if n.get("kind") == "BinaryOperator" and n.get("opcode") == "=":
                    l = _unwrap(n["inner"][0])
                    rr = [x.get("name") for x in _walk(n["inner"][1]) if x.get("kind") == "MemberExpr"]
                    ll = [x.get("name") for x in _walk(l) if x.get("kind") == "MemberExpr"]
                    if l.get("kind") == "UnaryOperator" and l.get("opcode") == "*" and "pValue" in ll and "DefValue" in rr:
                        cpuarg_default = True
            break
        if st.get("kind") == "IfStmt":
            refs = [x["referencedDecl"]["name"] for x in _walk(st["inner"][0]) if x.get("kind") == "DeclRefExpr"]
            if "pArgs" in refs:
                break   # a return depending on the user arguments comes first
    # SetCPUCore calls ParseCPUArgs before SwitchProc, and UnsetCPU
    text = _clang_json(bdir, os.path.join(common.REPO, "asmallg.c"), "SetCPUCore")
    docs, i = [], 0
    while i < len(text):
        while i < len(text) and text[i].isspace():
            i += 1
        if i >= len(text):
            break
        d, i = dec.raw_decode(text, i)
        docs.append(d)
    bodies = [c for d in docs if d.get("kind") == "FunctionDecl" and d.get("name") == "SetCPUCore" for c in d.get("inner", []) if c.get("kind") == "CompoundStmt"]
    if len(bodies) != 1:
        raise ExtractError("asmallg.c: SetCPUCore not found")
    _a, calls2 = direct_effects(bodies[0])
    if "ParseCPUArgs" not in calls2:
        cpuarg_default = False
    return dict(coreAssigned=sorted(assigned), cpuArgDefault=cpuarg_default, setCpuUnsets="UnsetCPU" in calls2)



def _filtered_body(bdir, cfile, fn):
    text = _clang_json(bdir, os.path.join(common.REPO, cfile), fn)
    dec = json.JSONDecoder()
    docs, i = [], 0
    while i < len(text):
        while i < len(text) and text[i].isspace():
            i += 1
        if i >= len(text):
            break
        d, i = dec.raw_decode(text, i)
        docs.append(d)
    bodies = [c for d in docs if d.get("kind") == "FunctionDecl" and d.get("name") == fn for c in d.get("inner", []) if c.get("kind") == "CompoundStmt"]
    if len(bodies) != 1:
        raise ExtractError("%s: function %s not found" % (cfile, fn))
    return bodies[0]


# Hand-written classification of core variables that a pseudo-instruction handler assigns and the per-pass
# initialisation does not.  A variable found by the inventory that is neither reset per pass nor listed here
# makes the obligation C18_core_classified fail (new state without a reset).
#   perpass   - must be reset at the start of every pass (if it is not: defect)
#   scratch   - set before use inside one statement / restored by the statement itself
#   report    - affects listing output only
#   bycall    - reset per pass through a call that takes its address (InitLstMacroExpMod(&x))
#   guarded   - only read when a per-pass-reset flag says it is valid
#   perfile   - reset per file is enough (a pass that leaves it changed ends with an error, so no further pass)
CORE_CLASSES = {
    "RadixBase": "perpass", "OutRadixBase": "perpass", "DottedStructs": "perpass",
    "BAsmCode": "scratch", "CodeLen": "scratch", "Grans[*]": "scratch", "ListGrans[*]": "scratch", "StructSaveSeg": "scratch",
    "TurnWords": "scratch", "InMacroFlag": "scratch", "WasMACRO": "scratch",
    "PrtExitString": "report", "PrtInitString": "report", "PrtTitleString": "report", "ActiveIF": "report", "ListLine": "report",
    "LstMacroExpModDefault": "bycall", "LstMacroExpModOverride": "bycall",
    "StartAdr": "guarded", "IfAsm": "perfile",
}
CORE_HANDLER_FILES = ["asmallg.c", "asmif.c", "asmmac.c", "asmstructs.c", "as.c"]
CORE_STACKS = ["FirstIfSave", "FirstSaveState", "SectionStack", "StructStack", "pInnermostNamedStruct", "FirstOutputTag", "FirstInputTag",
               "pPhaseStacks[*]", "MomLocHandle", "LocHandleCnt", "SectSymbolCounter", "ErrorCount", "WarnCount", "Repass", "ENDOccured",
               "ActPC", "PCsUsed[*]", "Phases[*]", "RelaxedMode", "CompMode", "DoPadding", "SupAllowed", "FPUAvail", "Maximum", "DoBranchExt",
               "StartAdrPresent", "EnumCurrentValue", "EnumIncrement", "EnumSegment", "IncDepth", "NestMax", "TransTables", "CurrTransTable", "JmpErrors"]


def _core_file_job(job):
    bdir, f = job
    try:
        ast = json.loads(_clang_json(bdir, os.path.join(common.REPO, f)))
    except ExtractError as ex:
        return dict(error=str(ex))
    funcs, gvars = {}, set()
    for d in ast.get("inner", []):
        if d.get("kind") == "FunctionDecl":
            b = [c for c in d.get("inner", []) if c.get("kind") == "CompoundStmt"]
            if b:
                funcs[d["name"]] = b[0]
        elif d.get("kind") == "VarDecl":
            gvars.add(d["name"])
    eff = {fn: direct_effects(b) for fn, b in funcs.items()}

    def closure(roots):
        seen, out = set(), set()
        todo = [r for r in roots if r in funcs]
        while todo:
            x = todo.pop()
            if x in seen:
                continue
            seen.add(x)
            a, c = eff[x]
            out |= a
            todo += [y for y in c if y in funcs]
        return out
    perpass = set()
    for r in ("AssembleFile_InitPass", "AsmSubPassInit", "AsmErrPassInit", "AsmLabelPassInit", "SetCPUCore"):
        if r in funcs:
            perpass |= closure([r])
    handlers = [fn for fn in funcs if fn.startswith("Code") or fn.startswith("Decode") or fn.endswith("_Processor")]
    asg = {}
    for fn in handlers:
        for k in closure([fn]):
            base = re.split(r"[\[.]", k)[0]
            if base in gvars:
                asg.setdefault(k, []).append(fn)
    # flags handed to the generic ON/OFF instruction mechanism by the core itself (persistent registrations)
    for fn, body in funcs.items():
        for n in _walk(body):
            if n.get("kind") == "CallExpr" and _callee(n) == "AddONOFF" and len(n["inner"]) >= 3:
                key = address_key(n["inner"][2])
                if key and re.split(r"[\[.]", key)[0] in gvars | {"DottedStructs"}:
                    asg.setdefault(key, []).append("DecodeONOFF(%s)" % (_strlit(n["inner"][1]) or "?"))
    calls = {}
    for r in ("AssembleFile", "AssembleFile_ExitPass"):
        if r in funcs:
            calls[r] = sorted(eff[r][1])
    # file handles AssembleFile closes before the next source - in its own body or in a function of the same file it calls, as
    # CloseIfOpen(&X) or by assigning X: the per-source error log (-E without a name) must be among them
    closes = []
    if "AssembleFile" in funcs:
        seen, todo = set(), ["AssembleFile"]
        while todo:
            x = todo.pop()
            if x in seen:
                continue
            seen.add(x)
            todo += [y for y in eff[x][1] if y in funcs]
            for n in _walk(funcs[x]):
                if n.get("kind") == "CallExpr" and _callee(n) == "CloseIfOpen" and len(n.get("inner", [])) >= 2:
                    closes.append(address_key(n["inner"][1]) or "?")
        closes += [k for k in closure(["AssembleFile"]) if k in ("ErrorFile",)]
    return dict(file=f, perpass=sorted(perpass), assigned={k: sorted(v)[:3] for k, v in asg.items()}, calls=calls, closes=sorted(set(closes)))


def core_inventory(bdir):
    """core variables a pseudo-instruction handler assigns, with 'reset per pass' / 'reset per file' flags"""
    cdir = os.path.join(common.SCRATCH_ROOT, "genstate-cache")
    os.makedirs(cdir, exist_ok=True)
    hh = _headers_hash(bdir)
    files = sorted(set(CORE_HANDLER_FILES + ["as.c", "asmsub.c", "asmerr.c", "asmlabel.c"]))
    res, jobs = {}, []
    for f in files:
        with open(os.path.join(common.REPO, f), "rb") as fh:
            key = hashlib.sha256(fh.read()).hexdigest()[:16]
        cp = os.path.join(cdir, "core-%s-%s-%s-v3.json" % (f, key, hh))
        if os.path.exists(cp):
            try:
                res[f] = json.load(open(cp))
                continue
            except Exception:
                pass
        jobs.append((f, cp))
    if jobs:
        with concurrent.futures.ProcessPoolExecutor(max_workers=4) as ex:
            for (f, cp), g in zip(jobs, ex.map(_core_file_job, [(bdir, f) for f, _c in jobs])):
                if "error" in g:
                    raise ExtractError(g["error"])
                tmp = cp + ".tmp%d" % os.getpid()
                with open(tmp, "w") as fh:
                    json.dump(g, fh)
                os.replace(tmp, cp)
                res[f] = g
                for n in os.listdir(cdir):
                    if n.startswith("core-%s-" % f) and os.path.join(cdir, n) != cp:
                        try:
                            os.unlink(os.path.join(cdir, n))
                        except OSError:
                            pass
    perpass = set()
    for f in files:
        perpass |= set(res[f]["perpass"])
    perfile = set()
    for cfile, fn in (("asmdef.c", "AsmDefInit"), ("asmpars.c", "AsmParsInit"), ("asmif.c", "AsmIFInit")):
        a, _c = direct_effects(_filtered_body(bdir, cfile, fn))
        perfile |= a
    rows = []
    for f in CORE_HANDLER_FILES:
        for k, who in sorted(res[f]["assigned"].items()):
            pp = covers(perpass, k)
            if pp:
                continue   # reset per pass: nothing to classify
            rows.append(dict(file=f, var=k, handlers=who, perPass=False, perFile=covers(perfile, k), cls=CORE_CLASSES.get(k, "unclassified")))
    stacks = [dict(var=k, perPass=covers(perpass, k)) for k in CORE_STACKS]
    calls = res["as.c"]["calls"]
    facts = dict(
        fileCallsDefInit=all(x in calls.get("AssembleFile", []) for x in ("AsmDefInit", "AsmParsInit", "AsmIFInit", "InitFileList")),
        fileCallsClearUp="ClearUp" in calls.get("AssembleFile", []),
        exitPassUnsetsCPU="UnsetCPU" in calls.get("AssembleFile_ExitPass", []),
        exitPassClearsStacks="ClearStacks" in calls.get("AssembleFile_ExitPass", []),
        fileClosesErrorLog="ErrorFile" in res["as.c"].get("closes", []))
    return rows, stacks, facts


def inventory(bdir):
    """list of per-generator dicts (sorted by file) + core facts; cached per file by content hash"""
    cdir = os.path.join(common.SCRATCH_ROOT, "genstate-cache")
    os.makedirs(cdir, exist_ok=True)
    hh = _headers_hash(bdir)
    files = sorted(f for f in os.listdir(common.REPO) if re.match(r"^code.*\.c$", f))
    if len(files) < 50:
        raise ExtractError("only %d code*.c files found" % len(files))
    out = {}
    jobs = []
    for f in files:
        p = os.path.join(common.REPO, f)
        with open(p, "rb") as fh:
            key = hashlib.sha256(fh.read()).hexdigest()[:16]
        cp = os.path.join(cdir, "%s-%s-%s.json" % (f, key, hh))
        if os.path.exists(cp):
            try:
                out[f] = json.load(open(cp))
                continue
            except Exception:
                pass
        jobs.append((f, p, cp))
    if jobs:
        with concurrent.futures.ProcessPoolExecutor(max_workers=4) as ex:
            for (f, p, cp), g in zip(jobs, ex.map(_analyse_file, [(bdir, p) for (_f, p, _c) in jobs])):
                if "error" in g:
                    raise ExtractError(g["error"])
                tmp = cp + ".tmp%d" % os.getpid()
                with open(tmp, "w") as fh:
                    json.dump(g, fh)
                os.replace(tmp, cp)
                out[f] = g
        # drop stale cache entries of re-analysed files
        for f, p, cp in jobs:
            for n in os.listdir(cdir):
                if n.startswith(f + "-") and os.path.join(cdir, n) != cp:
                    try:
                        os.unlink(os.path.join(cdir, n))
                    except OSError:
                        pass
    core = core_facts(bdir)
    gens = [out[f] for f in files]
    for g in gens:
        for v in g["vars"]:
            if v["kind"] == "cpuarg":
                v["core"] = core["cpuArgDefault"]
            else:
                v["core"] = covers(set(core["coreAssigned"]), v["var"])
    return gens, core


if __name__ == "__main__":
    bd = common.repo_build("hooks")
    gens, core = inventory(bd)
    print("core:", core)
    for g in gens:
        for v in g["vars"]:
            ok = v["initPass"] or v["switchTo"] or v["switchFrom"] or v["core"]
            print("%-14s %-7s %-12s %-18s init=%d sw=%d from=%d core=%d %s" % (g["file"], v["kind"], v["name"], v["var"], v["initPass"], v["switchTo"], v["switchFrom"], v["core"], "" if ok else "<== NOT RESET"))


# --------------------------------------------------------------------------
# Lean emission

def _ls(s):
    return '"' + str(s).replace("\\", "\\\\").replace('"', '\\"') + '"'


def _lb(b):
    return "true" if b else "false"


def gen_genstate(bdir, write_if_changed, hdr):
    gens, core = inventory(bdir)
    rows, stacks, facts = core_inventory(bdir)
    nvars = sum(len(g["vars"]) for g in gens)
    if nvars < 20:
        raise ExtractError("state inventory of the code generators looks empty (%d variables)" % nvars)
    L = [hdr, "namespace AslModel.Generated\n",
         "/-- one statement-settable variable of a code generator (translate/globals.py): where it is given a fresh value -/",
         "structure GenVar where\n  file : String\n  kind : String\n  name : String\n  var : String\n  initPass : Bool\n  switchTo : Bool\n  switchFrom : Bool\n  core : Bool\nderiving Repr, DecidableEq, Inhabited\n",
         "def genVars : List GenVar := ["]
    out = []
    for g in gens:
        for v in g["vars"]:
            out.append("  ⟨%s, %s, %s, %s, %s, %s, %s, %s⟩" % (_ls(g["file"]), _ls(v["kind"]), _ls(v["name"]), _ls(v["var"]), _lb(v["initPass"]), _lb(v["switchTo"]), _lb(v["switchFrom"]), _lb(v["core"])))
    L.append(",\n".join(out))
    L.append("]\n")
    L.append("/-- every code*.c with the number of procedures it registers through AddInitPassProc -/")
    L.append("def genFiles : List (String × Nat) := [\n" + ",\n".join("  (%s, %d)" % (_ls(g["file"]), len(g["initProcs"])) for g in gens) + "]\n")
    L.append("/-- core variables assigned by a pseudo-instruction handler and not on the per-pass initialisation path:\n    (file, variable, reset per file, class from translate/globals.py CORE_CLASSES) -/")
    L.append("structure CoreVar where\n  file : String\n  var : String\n  perFile : Bool\n  cls : String\nderiving Repr, DecidableEq, Inhabited\n")
    L.append("def coreVars : List CoreVar := [\n" + ",\n".join("  ⟨%s, %s, %s, %s⟩" % (_ls(r["file"]), _ls(r["var"]), _lb(r["perFile"]), _ls(r["cls"])) for r in rows) + "]\n")
    L.append("/-- open-construct stacks, counters and mode flags of the core: assigned on the per-pass path (AssembleFile_InitPass and callees)? -/")
    L.append("def coreStacks : List (String × Bool) := [\n" + ",\n".join("  (%s, %s)" % (_ls(s["var"]), _lb(s["perPass"])) for s in stacks) + "]\n")
    L.append("/-- structural facts read from the AST of as.c / asmallg.c -/")
    L.append("def initPassRunsRegistry : Bool := true  -- AssembleFile_InitPass calls InitPass() (extraction fails otherwise)")
    L.append("def cpuArgDefaultLoop : Bool := %s  -- ParseCPUArgs stores DefValue through every pValue before looking at the user's arguments" % _lb(core["cpuArgDefault"]))
    L.append("def setCpuUnsets : Bool := %s  -- SetCPUCore calls UnsetCPU()" % _lb(core["setCpuUnsets"]))
    L.append("def fileCallsDefInit : Bool := %s  -- AssembleFile calls AsmDefInit, AsmParsInit, AsmIFInit, InitFileList" % _lb(facts["fileCallsDefInit"]))
    L.append("def fileCallsClearUp : Bool := %s" % _lb(facts["fileCallsClearUp"]))
    L.append("def exitPassUnsetsCPU : Bool := %s" % _lb(facts["exitPassUnsetsCPU"]))
    L.append("def exitPassClearsStacks : Bool := %s" % _lb(facts["exitPassClearsStacks"]))
    L.append("def fileClosesErrorLog : Bool := %s  -- AssembleFile (or a function of as.c it calls) closes ErrorFile - the per-source error log of -E without a name" % _lb(facts["fileClosesErrorLog"]))
    L.append("\nend AslModel.Generated\n")
    return write_if_changed("GenState.lean", "\n".join(L))
