	cpu z80
	org 100h
	db 11h,22h,33h
	save
	cpu 16c84
	org 16
	data $1234,$2abc
	restore
	db 0a5h,5ah
	save
	cpu 8051
	segment xdata
	org 20h
	save
	cpu z80
	db 1
	restore
	db 2
	restore
	db 3
