	cpu z80
	org 0
	dw 8721
	cpu h8/300
	dc.w 4660,35243
	dc.b 1,2,3
	save
	cpu msp430
	org 512
	word 4660
	restore
	dc.w 52719
	cpu 6809
	fdb 4660
	cpu 68000
	dc.w 4660
	cpu 8086
	dw 4660
	cpu tms9900
	word 4660
	cpu 16c84
	org 16
	data 4660
