	irpn -1,x,y
	nop
	endm
