	cpu	6502
	org	$1000
	binclude "blob.bin",0,100	; blob.bin has 64 bytes
	binclude "blob.bin",60,10
	binclude "blob.bin",64,1
	binclude "blob.bin",100,5
	binclude "blob.bin",100
	binclude "blob.bin",0,-5
	binclude "blob.bin",0,70000
	rept	2
	binclude "blob.bin",1,64
	endm
	nop
