; FUNCTION with empty / invalid parameter names in every position (regression input of the class c03_names.py generates)
	cpu z80
g1	function x,,x+(1)
g2	function a,b,,(a)*(b)
g3	function ,y,(y)
g4	function x,1y,(x)+(1)
g5	function x,y_,(x)
	db	1
