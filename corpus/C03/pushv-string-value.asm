	cpu	6502
v0	set	"xyz"
v3	set	5
	pushv	stk,v0
	popv	stk,v3
v0	set	1
v3	set	2
