	align 0
