	cpu	6502
	org	$1000
limit	equ	10
count	set	3
aaa	set	1
zzz	set	2
	pushv	regs,count
	popv	regs,limit	; refused: limit is a constant with another value
	popv	regs,count	; the same stack again
	popv	regs,count	; now it is empty
	pushv	astack,aaa
	pushv	zstack,zzz
	pushv	,count
	popv	,limit		; refused, default stack, other stacks around it
	popv	,count
	popv	,count
	popv	zstack,zzz
	popv	astack,aaa
	byt	count,aaa,zzz
