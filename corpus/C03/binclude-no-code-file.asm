; asl-options: +G
; BINCLUDE of a file beyond the 512-byte code buffer while code output is switched off (+G): no code file is open,
; the statement must only advance the program counter (was: WriteBytes() on a NULL FILE*, SIGSEGV)
	cpu z80
	binclude "big1300.bin"
after:	db 1
	binclude "big5000.bin",100,3000
	save
	phase 4000h
	binclude "big513.bin"
	dephase
	restore
	db 600 dup (2)
