x	equ	t(1,2,3,4)
