	cpu 6809
	dc.q [3]1,[9]"We9Dmi",2
