s	struct
	save
s	endstruct
	restore
	nop
