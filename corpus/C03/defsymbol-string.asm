; asl-options: -D 'x="hello world, this is a string"'
; a string-valued symbol defined on the command line: CMD_DefSymbol releases the value AddDefSymbol keeps a shallow copy of
	cpu z80
	ifdef x
	message "x=[\{x}]"
	db strlen(x)
	endif
	nop
