x	equ	substr("abc",-5,100)
