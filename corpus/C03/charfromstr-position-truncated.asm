x	equ	charfromstr("abc",4294967296*16)
