	cpu 68020
	fpu on
	fmovem d4,-(sp)
