 macro ÿmacro
