	cpu z80
; VAL of a string that calls VAL of itself: must end with a diagnostic (NESTMAX), not with a stack overflow
x	set "val(x)"
	db val(x)
y	set "1+val(y)*2"
	dw val(y)
