	cpu	320C30
	addi	r0,r1,r2,r3
