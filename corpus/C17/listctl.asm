; statements that only steer the listing, macro expansion display and printer strings must leave the code alone under every report option
	cpu	68000
	page	30,100
	title	"listing control"
	org	$2000
	listing	off
	dc.b	1,2
	listing	on
	macexp	off
m1	macro	a,b
	dc.w	a,b
	endm
	m1	1,2
	macexp	on
	m1	3,4
	newpage
	dc.l	1,2,3,4,5,6,7,8,9,10,11,12,13,14,15,16,17,18,19,20
	listing	noskipped
	if	0
	dc.b	$ee
	endif
	listing	purecode
	dc.b	'x'
	listing	on
	prtinit	"\27E"
	prtexit	"\27F"
rec	struct
f1	ds.b	1
f2	ds.w	1
rec	endstruct
	dc.b	rec_len,rec_f2
	rept	3
	dc.b	$55
	endm
fwd1:	bra.s	fwd2
	dc.w	fwd2-fwd1
fwd2:	nop
	shared	fwd1,fwd2,rec_len
	end	$2000
