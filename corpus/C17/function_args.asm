	cpu z80
low8	function x,x&255
hi8	function x,(x>>8)&255
	org 100h
	db low8(372),hi8(372)
	dw 1234h
