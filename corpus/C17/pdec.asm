; number-to-text conversions inside the assembler (packed decimal floats go through a %e rendering) must not depend on -h / -SPLITBYTE
	cpu	68040
	fpu	on
	org	$1000
	dc.p	2.5e3
	dc.p	-6.25e-2
	dc.p	1.0e10,1.0,123456789.0e-20
	dc.p	9.999e-300,1.0e300
	fmove.p	#1.0e10,fp1
	fmove.p	#-3.5e-7,fp2
	fmove.x	#1.5,fp0
	dc.x	1.0e100
	dc.d	-2.5e-300
	dc.s	3.14159
	dc.w	$abcd,$ABCD,$ff
	dc.b	"ABCdef",$1f
