; report options that keep usage / cross-reference information (-u, -C, -s) must not change what IFUSED/IFNUSED/IFDEF see
	cpu	z80
	org	0
refd	equ	5
norefs	equ	6
setv	set	1
	ld	a,refd
	ifused	norefs
	db	0a1h,0a2h,0a3h
	endif
	ifnused	norefs
	db	0b1h
	endif
	ifused	refd
	db	0c1h
	endif
	ifnused	refd
	db	0c2h
	endif
	ifdef	norefs
	db	0d1h
	endif
	ifndef	nosuch
	db	0d2h
	endif
	ifused	setv
	db	0e1h
	endif
lab1:	nop
	ifused	lab1
	db	0f1h
	endif
lab2:	nop
	jr	lab2
	ifused	lab2
	db	0f2h
	endif
	db	defined(norefs),defined(nosuch2)
	section	inner
norefs2	equ	7
	ifused	norefs2
	db	91h
	endif
	ifnused	norefs2
	db	92h
	endif
	endsection
	db	0ffh
