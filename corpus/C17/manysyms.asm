; many symbols entered in a non-sorted order, same names in nested sections: symbol table shape (-A), section list (-s), used list (-u)
	cpu	6502
	org	$300
s007a	equ	0
s025zz	equ	37
s034zz	equ	74
s048_q	equ	111
s082a	equ	148
s085a	equ	185
s057zz	equ	222
s000_q	equ	8
s076zz	equ	45
s001_q	equ	82
s075a	equ	119
s054_q	equ	156
s014a	equ	193
s024zz	equ	230
s016Xy	equ	16
s084_q	equ	53
s055Xy	equ	90
s060zz	equ	127
s088zz	equ	164
s050_q	equ	201
s028zz	equ	238
s089_q	equ	24
s005a	equ	61
s017_q	equ	98
s066a	equ	135
s041_q	equ	172
s070a	equ	209
s012a	equ	246
s015zz	equ	32
s038Xy	equ	69
s049a	equ	106
s067Xy	equ	143
s073zz	equ	180
s056_q	equ	217
s037zz	equ	3
s033_q	equ	40
s045_q	equ	77
s029zz	equ	114
s042Xy	equ	151
s086Xy	equ	188
s047_q	equ	225
s074zz	equ	11
s062_q	equ	48
s023Xy	equ	85
s027a	equ	122
	section	outer
s071Xy:	byt	0
s072a:	byt	1
s026a:	byt	2
s059Xy:	byt	3
s052_q:	byt	4
s036zz:	byt	5
s087a:	byt	6
s008_q:	byt	7
s013zz:	byt	8
s063a:	byt	9
s021a:	byt	10
s031zz:	byt	11
s083_q:	byt	12
s002a:	byt	13
s080_q:	byt	14
s064_q:	byt	15
s003Xy:	byt	16
s009Xy:	byt	17
s053_q:	byt	18
s058Xy:	byt	19
s032_q:	byt	20
s044zz:	byt	21
s030zz:	byt	22
s004zz:	byt	23
s051a:	byt	24
	section	innermost
s007a	equ	200
s025zz	equ	201
s034zz	equ	202
s048_q	equ	203
s082a	equ	204
s085a	equ	205
s057zz	equ	206
s000_q	equ	207
s076zz	equ	208
s001_q	equ	209
	byt	s007a,s025zz,s034zz,s048_q,s082a,s085a,s057zz,s000_q,s076zz,s001_q
	endsection
	byt	s007a,s025zz,s034zz,s048_q,s082a,s085a,s057zz,s000_q,s076zz,s001_q
	endsection
s068_q:	lda	#s007a
s077Xy:	lda	#s025zz
s006zz:	lda	#s034zz
s020zz:	lda	#s048_q
s061a:	lda	#s082a
s079_q:	lda	#s085a
s019Xy:	lda	#s057zz
s010zz:	lda	#s000_q
s022zz:	lda	#s076zz
s081Xy:	lda	#s001_q
s040a:	lda	#s075a
s039_q:	lda	#s054_q
s011Xy:	lda	#s014a
s069Xy:	lda	#s024zz
s035zz:	lda	#s016Xy
s043zz:	lda	#s084_q
s018zz:	lda	#s055Xy
s046a:	lda	#s060zz
s078_q:	lda	#s088zz
s065Xy:	lda	#s050_q
	byt	s068_q&255,s077Xy&255,s006zz&255,s020zz&255,s061a&255,s079_q&255,s019Xy&255,s010zz&255,s022zz&255,s081Xy&255,s040a&255,s039_q&255,s011Xy&255,s069Xy&255,s035zz&255
	jmp	s079_q
