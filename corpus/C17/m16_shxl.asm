; regression source for C17: SHXL/SHXR with a memory operand (M16) - the extension words of the operand
; must be the same in every run and under every report option
	cpu	m16
	shxl	@(1234,r3)
	shxr	@(1234,r3)
	shxl	@r3
