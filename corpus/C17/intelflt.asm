; Intel-style data with floats and hex spellings in both letter cases (-h changes how hex is *printed*, never how it is read)
	cpu	8086
	org	100h
	dd	2.5,1.0e10,-3.5e-7
	dq	1.0e-5,6.02e23
	dt	1.5e10,-1.0e-4000+1.0
	dw	0abcdh,0ABCDH,0ffh
	db	'aBc',0Ah,0aH
	dd	12345678h
