	cpu 68000
	org $400
	dc.w $1234
	dc.b 1
	dc.w $5678
	dc.l $9abcdef0
lab:	bra.s lab
